#!/bin/sh
# usage: mkwt.sh <name>  -> creates scratch worktree /tmp/wt/<name> of /repo HEAD
set -e
mkdir -p /tmp/wt
git -C /repo worktree add --detach /tmp/wt/$1 HEAD >/dev/null 2>&1
echo /tmp/wt/$1
