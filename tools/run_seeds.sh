#!/bin/sh
# usage: run_seeds.sh [tier] -- apply every seeded change to /repo in turn, run its property's check, revert; writes seeded/RESULTS.tsv
# (development tool; /repo must be clean; never commits to /repo)
TIER=${1:-quick}
cd /verif
[ -z "$(git -C /repo status --short)" ] || { echo "/repo not clean"; exit 3; }
OUT=seeded/RESULTS.tsv
printf "seed\tproperty\ttier\texit\tviolations\tseconds\tfirst_kind\n" > $OUT
for d in seeded/*/; do
  n=$(basename $d); pid=$(echo $n | cut -c1-3)
  grep -q "obsolete" $d/meta.json && { printf "%s\t%s\t%s\tobsolete\t-\t-\t-\n" $n $pid $TIER >> $OUT; continue; }
  git -C /repo apply /verif/$d/patch.diff || { printf "%s\t%s\t%s\tapply-failed\t-\t-\t-\n" $n $pid $TIER >> $OUT; continue; }
  s=$(date +%s)
  ./check $pid --tier $TIER > /tmp/seedrun.out 2>&1; rc=$?
  git -C /repo checkout -- .
  nv=$(grep -c '^VIOLATION' /tmp/seedrun.out)
  k=$(grep -v '^VIOLATION\|^KNOWN-FINDING\|^\[' /tmp/seedrun.out | head -1 | cut -d: -f1 | tr -d ' ')
  printf "%s\t%s\t%s\t%s\t%s\t%s\t%s\n" $n $pid $TIER $rc $nv $(( $(date +%s)-s )) "$k" >> $OUT
done
rm -f /tmp/seedrun.out
cat $OUT
