#!/usr/bin/env python3
"""Merge reviewed --emit-known output into known_findings.json.
usage: add_known.py <PID> <emit-file> <descriptions.json>   (descriptions: {class: {"what":..., "why_not_fixed":...}})
Signatures are regrouped by the `kind` suffix after ':' when a description for it exists. Reviewed by hand before commit."""
import json, sys
pid, emit, descf = sys.argv[1:4]
txt = open(emit).read()
start = txt.index('[\n')
arr, _ = json.JSONDecoder().raw_decode(txt[start:])
desc = json.load(open(descf))
kf = json.load(open('/verif/known_findings.json'))
kf["findings"] = [f for f in kf["findings"] if not (f["property"] == pid and f["class"] in desc)]
for a in arr:
    cls = a["class"].split(":")[-1]
    if cls not in desc:
        print("SKIP (no description):", a["class"], len(a["signatures"]))
        continue
    ex = [f for f in kf["findings"] if f["property"] == pid and f["class"] == cls]
    if ex:
        ex[0]["signatures"] = sorted(set(ex[0]["signatures"]) | set(a["signatures"]))
    else:
        kf["findings"].append({"property": pid, "class": cls, **desc[cls], "signatures": sorted(set(a["signatures"]))})
json.dump(kf, open('/verif/known_findings.json', 'w'), indent=1)
for f in kf["findings"]:
    print(f["property"], f["class"], len(f["signatures"]))
