#!/bin/sh
# usage: try_seed_wt.sh <seed-name> <ID> [tier]
# Like try_seed.sh but never touches /repo or /verif/evidence: applies the seeded patch to a scratch worktree of
# /repo and runs the check from a scratch worktree of /verif (HEAD) with PV_REPO pointing at the patched tree,
# so several seeds can be tried in parallel.  Prints "seed=<name> check=<ID> exit=<rc>" and the first lines.
NAME=$1; PID=$2; TIER=${3:-quick}
R=/tmp/wt/r-$NAME; V=/tmp/wt/v-$NAME
rm -rf $R $V; git -C /repo worktree prune; git -C /verif worktree prune
git -C /repo worktree add --detach $R HEAD >/dev/null 2>&1 || exit 3
git -C /verif worktree add --detach $V HEAD >/dev/null 2>&1 || exit 3
git -C $R apply /verif/seeded/$NAME/patch.diff || { echo "apply failed"; exit 3; }
cd $V
PV_REPO=$R PYTHONPATH=$R:$V PYTHONDONTWRITEBYTECODE=1 PYTHONHASHSEED=0 PV_JOBS=${PV_JOBS:-5} \
  /verif/.venv/bin/python -W ignore -m pv.run $PID --tier $TIER > /tmp/wt/try_$NAME.out 2>&1; RC=$?
cd /
git -C /repo worktree remove --force $R; git -C /verif worktree remove --force $V
echo "seed=$NAME check=$PID exit=$RC violations=$(grep -c '^VIOLATION' /tmp/wt/try_$NAME.out)"
grep -v "^VIOLATION" /tmp/wt/try_$NAME.out | cut -c1-240 | head -6
