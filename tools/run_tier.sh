#!/bin/sh
# usage: run_tier.sh <tier> [ids...] -- run checks sequentially on the clean /repo, log rc / wall / violations (development tool)
TIER=$1; shift
IDS=${*:-"C01 C02 C03 C04 C05 C06 C07 C08 C09 C10 C11 C12 C13 C14 C15 C16 C17 C18 C19 C20"}
cd /verif; mkdir -p /tmp/wt
[ -z "$(git -C /repo status --short)" ] || { echo "/repo not clean"; exit 3; }
for id in $IDS; do
  s=$(date +%s)
  ./check $id --tier $TIER > /tmp/wt/${TIER}_$id.out 2>&1; rc=$?
  echo "$id rc=$rc $(( $(date +%s)-s ))s viol=$(grep -c '^VIOLATION' /tmp/wt/${TIER}_$id.out) inc=$(grep -c '^  inconclusive' /tmp/wt/${TIER}_$id.out) $(grep '^\[' /tmp/wt/${TIER}_$id.out | cut -c1-150)"
done
