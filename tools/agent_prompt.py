#!/usr/bin/env python3
"""Print the prompt given to a fresh sub-agent that seeds a property-breaking change.
usage: agent_prompt.py <prop-id> <worktree> [n_changes]
The prompt deliberately contains nothing from /verif except the property text."""
import json, sys
pid, wt = sys.argv[1], sys.argv[2]
n = int(sys.argv[3]) if len(sys.argv) > 3 else 2
for l in open('/verif/properties.jsonl'):
    p = json.loads(l)
    if p['id'] == pid:
        break
print(f"""You are helping test a verification effort for the Python library inducer/pymbolic (a pure-Python expression-tree library). You have your own scratch git worktree of the library at {wt} (a checkout of the pinned commit). Work ONLY inside {wt}; do not read or write /repo or /verif or any other directory (other than reading the Python installation). Run Python as `/venv/bin/python` with `PYTHONPATH={wt}` so that `import pymbolic` picks up your worktree (check `pymbolic.__file__`). The existing test suite is run with: `cd {wt} && PYTHONPATH={wt} /venv/bin/python -m pytest -q -p no:cacheprovider` (41 pass, some skipped). There is no network.

Here is a semantic property of pymbolic that should hold:

--- PROPERTY {p['id']}: {p['title']} ---
{p['statement']}

Quantified: {p['quantifier']['text']}

Relevant files: {', '.join(p['anchors']['files'])}
--- END PROPERTY ---

Your task: produce {n} DIFFERENT, independent, realistic changes (bugs) to the pymbolic source in the worktree, each of which BREAKS this property while the library still imports and the ENTIRE existing test suite still passes (same 41 passes). Each change should look like a plausible refactoring slip / optimisation / 'cleanup' a maintainer might really commit, be small (a few lines), and must need something specific to manifest: an unusual input, a particular combination of node types or operand kinds, a multi-step sequence of operations, a particular configuration/flag combination, or two cooperating sites that each look fine alone — NOT something ordinary use would expose at once, and not something that makes most inputs fail. The changes must be to library code under {wt}/pymbolic (not tests). Try to make the {n} changes exercise different parts/clauses of the property.

For each change i (1..{n}) deliver, in the directory {wt}/_out/ (create it):
  - patch<i>.diff : output of `git diff` (against the pinned commit) for ONLY that change (make each patch apply independently to a clean checkout with `git apply`; reset the worktree with `git checkout -- pymbolic` between changes).
  - demo<i>.py : a small standalone program (run as `PYTHONPATH=<tree> /venv/bin/python demo<i>.py`) that exits 0 and prints PASS on the unmodified library, and exits 1 and prints FAIL (with a short explanation) when the patch is applied. It must demonstrate a violation of the property as stated above (not of some other behaviour).
  - meta<i>.json : {{"property": "{p['id']}", "summary": "<one line: what the change does>", "needs": "<what specific thing is needed for it to manifest>", "files": [<changed files>]}}

Before finishing, for each change verify yourself: (a) patch applies to clean tree, (b) full test suite passes with it (41 passed), (c) demo fails with it and passes without it. Leave the worktree clean (git checkout -- pymbolic) at the end, keeping only the _out/ directory. In your final message, list the changes with a one-line description each and confirm the three verifications.""")
