"""profile all items of a property in parallel; per-worker logs reveal slow/hanging items"""
import time, sys, warnings, importlib, multiprocessing as mp, os, glob
warnings.simplefilter("ignore")
modname = "pv.props." + sys.argv[1]
tier = sys.argv[2] if len(sys.argv) > 2 else "quick"
LOGDIR = "/tmp/pvprof"
def work(args):
    idx, chunk = args
    from pv.engine import sym; sym.install()
    mod = importlib.import_module(modname)
    with open(f"{LOGDIR}/{idx}.log", "w") as f:
        for it in chunk:
            f.write(f"START\t{it!r}\n"); f.flush()
            t = time.time()
            try:
                r = mod.check_item(it, tier)
                v = " || ".join(x.detail[:200] for x in r.violations[:2])
                f.write(f"END\t{time.time()-t:.2f}\t{r.status}\t{r.paths}\t{r.queries}\t{r.item[:100]}\t{r.note[:200]!r}\t{v!r}\n")
            except BaseException as e:
                f.write(f"END\t{time.time()-t:.2f}\tERROR\t0\t0\t{it!r}\t{e!r}\t''\n")
            f.flush()
if __name__ == "__main__":
    import shutil; shutil.rmtree(LOGDIR, ignore_errors=True); os.makedirs(LOGDIR)
    mod = importlib.import_module(modname)
    its = mod.items(tier)
    n = 64
    chunks = [(i, its[i::n]) for i in range(n)]
    with mp.get_context("fork").Pool(16) as pool:
        pool.map(work, chunks)
