#!/usr/bin/env python3
"""Add reviewed --emit-known signatures to EXISTING known-finding classes (union; never creates or removes a class).
usage: merge_known.py <PID> <emit-file>"""
import json, sys
pid, emit = sys.argv[1:3]
txt = open(emit).read()
arr, _ = json.JSONDecoder().raw_decode(txt[txt.index('[\n'):])
kf = json.load(open('/verif/known_findings.json'))
for a in arr:
    cls = a["class"].split(":")[-1]
    ex = [f for f in kf["findings"] if f["property"] == pid and f["class"] == cls]
    if not ex:
        print("SKIP (no such class, review by hand):", a["class"], len(a["signatures"]))
        continue
    before = len(ex[0]["signatures"])
    ex[0]["signatures"] = sorted(set(ex[0]["signatures"]) | set(a["signatures"]))
    print(pid, cls, before, "->", len(ex[0]["signatures"]))
json.dump(kf, open('/verif/known_findings.json', 'w'), indent=1)
