import glob, collections
rows=[]; pending=[]
for fn in glob.glob("/tmp/pvprof/*.log"):
    last=None
    for l in open(fn):
        p=l.rstrip("\n").split("\t")
        if p[0]=="START": last=p[1]
        else: rows.append(p); last=None
    if last: pending.append(last)
print("done", len(rows), "pending", len(pending), "cpu", round(sum(float(r[1]) for r in rows),1))
print(collections.Counter(r[2] for r in rows))
rows.sort(key=lambda r:-float(r[1]))
for r in rows[:20]: print(r[1], r[2], "p="+r[3], "q="+r[4], r[5][:90], r[6][:80])
print("PENDING:")
for p in pending: print("  ", p[:150])
print("NON-OK:")
n=0
for r in rows:
    if r[2]!="ok" and n<80:
        n+=1; print(r[2], r[5][:100], r[6][:100], r[7][:230])
