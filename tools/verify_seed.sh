#!/bin/sh
# usage: verify_seed.sh <out-dir> <i> <seed-name> <prop-id>
# Confirms a sub-agent's change in a scratch worktree (outside /repo and /verif): patch applies to /repo HEAD,
# test suite passes with it, demo fails with it and passes without it. On success stores it under /verif/seeded/<seed-name>/.
OUT=$1; I=$2; NAME=$3; PID=$4
WT=/tmp/wt/verify-$NAME
rm -rf $WT; git -C /repo worktree prune; git -C /repo worktree add --detach $WT HEAD >/dev/null 2>&1 || exit 3
cd $WT
PYTHONPATH=$WT /venv/bin/python $OUT/demo$I.py >/tmp/wt/demo_clean.out 2>&1; CLEAN=$?
git apply $OUT/patch$I.diff || { echo "PATCH DOES NOT APPLY"; git -C /repo worktree remove --force $WT; exit 4; }
PYTHONPATH=$WT /venv/bin/python -m pytest -q -p no:cacheprovider -x >/tmp/wt/tests.out 2>&1; TESTS=$?
PYTHONPATH=$WT /venv/bin/python $OUT/demo$I.py >/tmp/wt/demo_patched.out 2>&1; PATCHED=$?
echo "clean-demo-exit=$CLEAN patched-demo-exit=$PATCHED tests-exit=$TESTS  $(tail -1 /tmp/wt/tests.out)"
cd /; git -C /repo worktree remove --force $WT
if [ $CLEAN = 0 ] && [ $PATCHED != 0 ] && [ $TESTS = 0 ]; then
  D=/verif/seeded/$NAME; mkdir -p $D
  cp $OUT/patch$I.diff $D/patch.diff; cp $OUT/demo$I.py $D/demo.py
  /venv/bin/python - <<PY
import json
m=json.load(open("$OUT/meta$I.json"))
m["property"]="$PID"
m["confirmed"]={"how":"tools/verify_seed.sh in a scratch worktree of /repo HEAD: demo exit 0 on clean tree, demo exit $PATCHED with patch, full pytest suite exit 0 with patch","tests_tail":open("/tmp/wt/tests.out").read().strip().splitlines()[-1]}
json.dump(m,open("$D/meta.json","w"),indent=1)
PY
  echo "KEPT $D"
else
  echo "REJECTED"
fi
