#!/usr/bin/env python3
"""Regenerate MANIFEST.json from pv/manifest_data.py (single source of truth)."""
import json, sys, os
sys.path.insert(0, os.path.dirname(os.path.dirname(os.path.abspath(__file__))))
from pv.manifest_data import CHECKS, NOT_APPLICABLE, NOTES, ENGINES
props = [json.loads(l)["id"] for l in open(os.path.join(os.path.dirname(__file__), "..", "properties.jsonl"))]
checks = []
for pid in props:
    if pid not in CHECKS:
        continue
    c = CHECKS[pid]
    checks.append({
        "property_id": pid,
        "quick_cmd": f"./check {pid} --tier quick",
        "thorough_cmd": f"./check {pid} --tier thorough",
        "evidence_file": f"/verif/evidence/{pid}.json",
        "replay_cmd_template": f"./check {pid} --replay {{path}}",
        "engine": c.get("engine", "E1 z3 proxies + path explorer"),
        "level_claimed": {"category": c["level"], "text": c["text"], "design_ref": c["design_ref"]},
        "level_note": c["note"],
        "technique": c["technique"],
    })
na = [{"property_id": pid, "reason": NOT_APPLICABLE[pid]} for pid in props if pid not in CHECKS]
assert all(p in CHECKS or p in NOT_APPLICABLE for p in props)
m = {
    "version": 1,
    "setup_cmd": "sh ./setup.sh",
    "hooks": {"guard": "PYMBOLIC_VERIF", "enable": "no source hooks are needed: checks observe pymbolic through its public API, subclassing, register_constant_class and (C01/C17) rebinding the global name `hash` from outside",
              "baseline_off_cmd": "cd /repo && /venv/bin/python -m pytest -ra -q -p no:cacheprovider --timeout=900 --continue-on-collection-errors",
              "source_commits": [], "add_only": True},
    "engines": ENGINES,
    "checks": checks,
    "notes": NOTES,
    "not_applicable": na,
}
json.dump(m, open(os.path.join(os.path.dirname(__file__), "..", "MANIFEST.json"), "w"), indent=1)
print("checks:", [c["property_id"] for c in checks], "n/a:", [n["property_id"] for n in na])
