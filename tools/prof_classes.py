import glob, collections, re, sys
rows=[]
for fn in glob.glob("/tmp/pvprof/*.log"):
    for l in open(fn):
        p=l.rstrip("\n").split("\t")
        if p[0]=="END": rows.append(p)
print(len(rows), "cpu", round(sum(float(r[1]) for r in rows)), collections.Counter(r[2] for r in rows))
N=int(sys.argv[1]) if len(sys.argv)>1 else 25
W=int(sys.argv[2]) if len(sys.argv)>2 else 230
n=0
for r in sorted(rows, key=lambda r: (r[2], r[5])):
    if r[2] not in ("ok","refused") and n<N:
        n+=1; print(r[2][:5], r[5][:55], "|", r[6][:50], "|", r[7][:W])
