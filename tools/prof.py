import time, sys, warnings, importlib
warnings.simplefilter("ignore")
from pv.engine import sym; sym.install()
mod = importlib.import_module("pv.props." + sys.argv[1])
tier = sys.argv[3] if len(sys.argv) > 3 else "quick"
its = mod.items(tier)
print(len(its))
import random
random.Random(1).shuffle(its)
tot=0
for it in its[:int(sys.argv[2])]:
    t=time.time()
    r=mod.check_item(it,tier)
    dt=time.time()-t; tot+=dt
    print(f"{dt:6.2f}s paths={r.paths:4d} q={r.queries:4d} solver={r.solver_s:5.2f} {r.status:12s} {r.item[:70]} {r.note[:100]}", flush=True)
    for v in r.violations[:2]: print("     V:", v.sig[:100], "::", v.detail[:200])
print(tot)
