#!/bin/sh
# usage: try_seed.sh <seed-name> <ID> [tier]  -- apply seeded patch to /repo, run check, revert
NAME=$1; PID=$2; TIER=${3:-quick}
cd /verif
git -C /repo apply /verif/seeded/$NAME/patch.diff || { echo "apply failed"; exit 3; }
./check $PID --tier $TIER > /tmp/wt/try_$NAME.out 2>&1; RC=$?
git -C /repo checkout -- .
echo "seed=$NAME check=$PID exit=$RC"; grep -c "^VIOLATION" /tmp/wt/try_$NAME.out; grep -v "^VIOLATION" /tmp/wt/try_$NAME.out | cut -c1-260 | head -12
git -C /repo status --short | head -3
