"""Helpers shared by the property modules: environments for skeletons, outcome
capture, impl-vs-oracle comparison with the solver, concretisation for replay."""
from __future__ import annotations

import types
from fractions import Fraction

import z3

from . import skel
from .common import ItemResult, Violation
from .engine import explore, sym
from .engine.explore import HarnessError, Inconclusive, PathAbort, Query
from .refsem import RefUnknownVariable

NUM_RANGE = {"bv": (-32, 31), "int": (None, None), "real": (None, None)}
EXP_RANGE = {"bv": (0, 3), "int": (-2, 3), "real": (-2, 3)}
SHIFT_RANGE = (-1, 7)


def family_for(desc):
    tg = skel.tags(desc)
    return "bv" if "bit" in tg else "int"


def make_env(desc, fam, extra_names=()):
    """-> env dict (name -> proxy / UF / UFArray / Record), list of z3 preconditions"""
    env, pre = {}, []
    for name, typ in skel.leaves(desc):
        if typ == "unbound":
            continue
        if typ in ("num", "tnum"):
            lo, hi = NUM_RANGE[fam]
            v, cs = sym.var(name, fam, lo, hi)
        elif typ == "exp":
            lo, hi = EXP_RANGE[fam]
            v, cs = sym.var(name, "bv" if fam == "bv" else "int", lo, hi)
        elif typ == "shift":
            v, cs = sym.var(name, "bv", *SHIFT_RANGE)
        elif typ == "bool":
            v, cs = sym.var(name, "bool")
        elif typ == "fn":
            v, cs = sym.UF(name, fam), []
        elif typ in ("arr", "arr2"):
            v, cs = sym.UFArray(name, fam), []
        elif typ == "rec":
            v, cs = sym.Record(name, fam), []
        else:
            raise ValueError(typ)
        env[name] = v
        pre += cs
    return env, pre


def concretise_env(env, model, exact=False):
    out = {}
    for k, v in env.items():
        if isinstance(v, sym.Sym):
            c = sym.model_value(model, v)
            if exact and isinstance(c, int) and not isinstance(c, bool):
                c = Fraction(c)
            if isinstance(c, Fraction) and not exact and c.denominator == 1:
                c = int(c)
            out[k] = c
        elif isinstance(v, sym.UF):
            out[k] = sym.ConcreteUF(v, model)
        elif isinstance(v, sym.UFArray):
            out[k] = sym.ConcreteArray(v, model)
        elif isinstance(v, sym.Record):
            ns = types.SimpleNamespace()
            for a, pv in object.__getattribute__(v, "_attrs").items():
                setattr(ns, a, sym.model_value(model, pv))
            out[k] = _DefaultNS(ns)
        else:
            out[k] = v
    return out


class _DefaultNS:
    def __init__(self, ns):
        self._ns = ns

    def __getattr__(self, a):
        if a.startswith("__"):
            raise AttributeError(a)
        return getattr(self._ns, a, 0)


def outcome(fn):
    """('val', v) | ('exc', e).  Engine exceptions propagate."""
    try:
        return ("val", fn())
    except (HarnessError, sym.Unsupported):
        raise
    except Exception as e:  # noqa: BLE001  (PathAbort/Inconclusive are BaseException)
        return ("exc", e)


ARITH_ERRORS = (ZeroDivisionError, ValueError, OverflowError)


def exc_matches(impl_exc, oracle_exc):
    """Does the implementation's exception report the same thing as the oracle's?"""
    if isinstance(oracle_exc, RefUnknownVariable):
        from pymbolic.mapper.evaluator import UnknownVariableError
        return (isinstance(impl_exc, (UnknownVariableError, RefUnknownVariable))
                and impl_exc.args[:1] == oracle_exc.args[:1])
    if isinstance(oracle_exc, ZeroDivisionError):
        return isinstance(impl_exc, ZeroDivisionError)
    return type(impl_exc) is type(oracle_exc) or isinstance(impl_exc, type(oracle_exc))


def show_outcome(o):
    if o[0] == "exc":
        return f"raises {type(o[1]).__name__}({', '.join(map(str, o[1].args))[:80]})"
    return f"value {o[1]!r}"[:200]


class Cmp:
    """Compare impl and oracle outcomes on one path.
    returns ('ok'|'skip', None) | ('sat', model|None, why) | ('unknown', None, why)"""

    def __init__(self, q: Query, fam, truthy=False, lenient=False):
        self.q = q
        self.fam = fam
        self.truthy = truthy
        # lenient: where the reference computation itself raises an arithmetic error (the value is undefined there),
        # nothing is required of the implementation
        self.lenient = lenient

    def __call__(self, pc, impl, oracle):
        if oracle[0] == "exc":
            oe = oracle[1]
            if isinstance(oe, (TypeError, AttributeError, NotImplementedError)):
                return ("skip", None, "oracle ill-typed")
            if self.lenient and isinstance(oe, ARITH_ERRORS):
                return ("skip", None, "reference undefined here")
            if impl[0] == "exc" and exc_matches(impl[1], oe):
                return ("ok", None, "")
            return ("sat", None, f"oracle {show_outcome(oracle)} but impl {show_outcome(impl)}")
        if impl[0] == "exc":
            return ("sat", None, f"oracle {show_outcome(oracle)} but impl {show_outcome(impl)}")
        try:
            if self.truthy:
                goal = sym.truth_term(impl[1]) == sym.truth_term(oracle[1])
            else:
                goal = sym.eq_term(impl[1], oracle[1], self.fam)
        except sym.Mismatch as e:
            return ("sat", None, f"structural mismatch: {e}")
        goal = z3.simplify(goal) if z3.is_expr(goal) else goal
        if z3.is_true(goal):
            return ("ok", None, "")
        verdict, model = self.q.valid(pc, goal)
        if verdict == "unsat":
            return ("ok", None, "")
        if verdict == "sat":
            return ("sat", model, f"value differs: impl {impl[1]!r} oracle {oracle[1]!r}"[:400])
        return ("unknown", None, "solver unknown")


def path_model(pre, pc):
    """A model of the path condition (for replays of structural failures)."""
    s = z3.Solver()
    s.set("timeout", 10000)
    for c in list(pre) + list(pc):
        s.add(c)
    if s.check() != z3.sat:
        raise HarnessError("path condition has no model")
    return s.model()


def witness_models(pre, pc, env, tier="quick", timeout_ms=5000):
    """Concrete witnesses of one path: the solver's default model plus boundary-biased
    ones (every scalar 0 / 1 / -1 where the path allows).  Used to re-run the real
    code on plain Python values for every explored path (model-fidelity net for
    code that dispatches on the concrete type of a value)."""
    s = z3.Solver()
    s.set("timeout", timeout_ms)
    for c in list(pre) + list(pc):
        s.add(c)
    scalars = [v for v in env.values() if isinstance(v, sym.Sym) and not isinstance(v, sym.SymBool)]
    biases = [None, 0] if tier == "quick" else [None, 0, 1, -1]
    seen = set()
    for b in biases:
        s.push()
        if b is not None:
            for v in scalars:
                s.add(v.term == b)
        r = s.check()
        if r == z3.sat:
            m = s.model()
            key = tuple(str(m.eval(v.term, model_completion=True)) for v in env.values()
                        if isinstance(v, sym.Sym))
            if key not in seen:
                seen.add(key)
                yield m
        s.pop()


def concrete_equal(a, b, truthy=False):
    """Plain-Python comparison used on replay."""
    import numpy as np
    if truthy:
        return bool(a) == bool(b)
    if isinstance(a, np.ndarray) or isinstance(b, np.ndarray):
        return (isinstance(a, np.ndarray) and isinstance(b, np.ndarray)
                and a.shape == b.shape and all(concrete_equal(x, y) for x, y in zip(a.flat, b.flat)))
    if isinstance(a, (tuple, list)):
        return type(a) is type(b) and len(a) == len(b) and all(
            concrete_equal(x, y) for x, y in zip(a, b))
    if isinstance(a, float) and isinstance(b, float) and a != a and b != b:
        return True
    try:
        return bool(a == b)
    except Exception:  # noqa: BLE001
        return False


def replay_differs(impl_fn, oracle_fn, truthy=False, lenient=False):
    """Run both on concrete values. -> (differs: bool, text)"""
    o = outcome(oracle_fn)
    i = outcome(impl_fn)
    if o[0] == "exc":
        if isinstance(o[1], (TypeError, AttributeError, NotImplementedError)):
            return False, "oracle ill-typed on replay"
        if lenient and isinstance(o[1], ARITH_ERRORS):
            return False, "reference undefined on replay"
        if i[0] == "exc" and exc_matches(i[1], o[1]):
            return False, "same exception"
        return True, f"expected {show_outcome(o)}; observed {show_outcome(i)}"
    if i[0] == "exc":
        return True, f"expected {show_outcome(o)}; observed {show_outcome(i)}"
    if concrete_equal(i[1], o[1], truthy):
        return False, "equal on replay"
    return True, f"expected {show_outcome(o)}; observed {show_outcome(i)}"


def _raise_if_exc(x):
    if isinstance(x, BaseException):
        raise x
    return x


def env_text(cenv):
    parts = []
    for k, v in sorted(cenv.items()):
        if isinstance(v, (int, float, Fraction, bool)):
            parts.append(f"{k}={v}")
        else:
            parts.append(f"{k}=<{type(v).__name__}>")
    return ", ".join(parts)


def stable_text(e):
    """Text of an expression for finding signatures: the harness's own rendering, independent of pymbolic's
    repr / stringifier (a known finding must stay recognisable if those are refactored)."""
    import dataclasses

    import pymbolic.primitives as p
    if isinstance(e, p.Variable) and type(e) is p.Variable:
        return e.name
    if isinstance(e, p.Expression):
        if dataclasses.is_dataclass(e):
            parts = [stable_text(getattr(e, f.name)) for f in dataclasses.fields(e)]
        else:
            parts = [stable_text(a) for a in e.__getinitargs__()]
        return f"{type(e).__name__}({', '.join(parts)})"
    if isinstance(e, tuple):
        return "(" + ", ".join(stable_text(c) for c in e) + ("," if len(e) == 1 else "") + ")"
    if isinstance(e, list):
        return "[" + ", ".join(stable_text(c) for c in e) + "]"
    if hasattr(e, "items"):
        return "{" + ", ".join(f"{k}: {stable_text(v)}" for k, v in sorted(e.items())) + "}"
    return repr(e)


def finish(res: ItemResult, ex_stats_list, q: Query):
    for st in ex_stats_list:
        res.paths += st.paths
        res.queries += st.queries
        res.unsat += st.unsat
        res.sat += st.sat
        res.unknown += st.unknown
        res.solver_s += st.solver_s
        res.coverage_queries += st.coverage_queries
    res.queries += q.stats.queries
    res.unsat += q.stats.unsat
    res.sat += q.stats.sat
    res.unknown += q.stats.unknown
    res.solver_s += q.stats.solver_s
    return res


__all__ = ["Cmp", "ItemResult", "Violation", "explore", "Inconclusive", "PathAbort"]
