"""Data for MANIFEST.json (see tools/gen_manifest.py)."""

SOLVER_TECH = ("symbolic execution of the real pymbolic functions on z3-term proxies (path explorer forks on "
               "every data-dependent branch); per path z3 decides `path condition => impl == oracle` for all "
               "values; sat models are replayed on the real code before a VIOLATION is printed")

ENGINES = [
    {"name": "E1 z3 proxies + path explorer", "path": "pv/engine", "serves_properties": [],
     "kind_free_text": "symbolic execution of the real Python code: numbers in environments/coefficients are z3 terms "
                       "(Int / Real / BitVec64 / Bool, uninterpreted functions for user callables), bool() forks paths "
                       "with solver feasibility checks, validity queries per path, bounded-exhaustive concrete skeletons"},
]

CHECKS = {
    "C01": {
        "level": "model_checking",
        "text": "Bounded symbolic model checking of the generated __eq__/__hash__ (and the legacy Expression.__eq__/get_hash): "
                "the name `hash` they look up is rebound to an uninterpreted function of a symbolic seed, scalar fields are z3 "
                "String/Int proxies; for every node class (45 built-in + 7 user classes in decorated/legacy/mixed hierarchies), "
                "3 child variants and 6 pre-histories z3 proves per path, for all field values, seeds and hash functions "
                "(collisions included): == iff same class and pairwise-equal fields, symmetry, transitivity, reflexivity, != "
                "is the negation, == implies equal hashes. A concrete-alphabet family (real hash) covers 1/1.0/True, NaN, "
                "kw mappings, sibling classes, dict/set interchangeability, FrozenInstanceError on rebinding and operation "
                "histories (solver-enumerated selectors with a coverage query)."
                " User classes include expr_dataclass(init=False), a three-level legacy hierarchy; reflexivity is also checked with float nan in every scalar field."
                " Keyword parameters given as MappingProxyType / UserDict / ChainMap; user classes with keyword-only, init=False and ClassVar members.",
        "design_ref": "DESIGN.md §4 C01",
        "note": "Trusted: the UF model of hash (equal input => equal hash, nothing else), z3 string equality, the harness's "
                "field-wise oracle. Real dict bucket placement and python -O are outside the claim.",
        "technique": SOLVER_TECH + "; hash() modelled as an uninterpreted function of a symbolic seed",
    },
    "C02": {
        "level": "model_checking",
        "text": "Bounded symbolic model checking: for every expression skeleton up to depth 2 (thorough: depth 3 over a reduced "
                "alphabet) the four real evaluator entry points are executed on z3 proxies and z3 proves per path that the "
                "result equals an independent denotation for every environment (unbounded Int, exact Real, 64-bit BV in a "
                "stated box for bitwise operators); exceptions are compared by class, unknown variables by name."
                " Skeleton extras: unbound function / aggregate / record names, one-tuple subscripts (a[(i,)] is not a[i]), conditionals whose condition is a number with an undefined unselected branch."
                " Every compared evaluation of a tree with wrappers is preceded by one in a shifted environment (wrappers of all three scopes).",
        "design_ref": "DESIGN.md §4 C02",
        "note": "Trusted: the proxies' model of Python arithmetic (validated on every run against CPython on a grid of "
                "operands), pv/refsem.py as the meaning of each node, z3. Floats are modelled as exact reals. Shapes beyond "
                "the stated depth/width are outside the claim.",
        "technique": SOLVER_TECH,
    },
    "C03": {
        "level": "model_checking",
        "text": "Bounded symbolic model checking of operator programs: every (binary operator, left operand kind, right operand "
                "kind) incl. the special constants 0 1 -1 2 0.0 1.0 True False and a *symbolic* integer constant c, unary "
                "operators, comparison/logical constructor methods and 3-atom chains are run twice per explored path - on "
                "Variables through the real overloaded operators (tree then evaluated) and directly on the environment's z3 "
                "proxies - and z3 proves equality for every environment and every c. A 2x2 symbolic matrix family decides "
                "operand order of sums/products; ordering comparisons are asserted to raise TypeError."
                " Operand kinds include trees pymbolic's own zero test calls zero (0//x, 0%x, 3 - 0//x, ...); chains of two logical constructor methods; ordering comparisons on 14 further node kinds incl. NaN."
                " Constant 0.5 (counterexamples through the uninterpreted power are confirmed on a concrete grid or reported inconclusive); a logical constructor method applied to the result of a comparison method.",
        "design_ref": "DESIGN.md §4 C03",
        "note": "Trusted: proxies' arithmetic model (self-tested per run), the uncached evaluator as the meaning of a tree "
                "(itself checked by C02), z3. Integer and rational environments are separate families; floats are exact reals.",
        "technique": SOLVER_TECH,
    },
    "C04": {
        "level": "model_checking",
        "text": "Bounded exhaustive symbolic execution of structure (no value-level quantifier exists in this property): the set of "
                "handlers a user mapper implements is one symbolic boolean per handler, the truth value returned by visit() one "
                "symbolic boolean per designated node, the rewritten leaf a symbolic selector; the explorer forks on them with z3 "
                "feasibility checks and a coverage query proves no assignment was skipped. Per path the observed handler "
                "invocation / walk trace / rebuilt tree / collector fold / forwarded arguments are compared with an independent "
                "specification, for 8 user class hierarchies and every node kind at depth 1-2 plus every constant in every slot."
                " Foreign objects include number classes registered at check time (alone and inside trees).",
        "design_ref": "DESIGN.md §4 C04",
        "note": "Trusted: the harness's dispatch spec (first class in the MRO whose handler the mapper has) and its notion of a "
                "node's children (expression-valued dataclass fields). Order among a node's children is not constrained.",
        "technique": "bounded exhaustive symbolic execution of the real mappers; small-domain choices forked with z3 feasibility + coverage query; path assertions against an independent traversal spec",
    },
    "C05": {
        "level": "model_checking",
        "text": "Bounded model checking of call histories: which expression (16-element pool with heavy sharing, "
                "equal-but-not-identical subtrees, 4/4.0/True as direct keys) and which extra-argument tuple is sent to ONE "
                "memoizing mapper instance at each step is a symbolic selector enumerated by the solver (coverage-checked); "
                "after every call the result is compared type-strictly with the non-memoizing counterpart applied afresh, for "
                "the identity, combine, collector, walk, substitution and CSE-mixin mappers; handler invocation counts per key; "
                "all 72 dependency-flag settings; for Cached/EvaluationMapper the environment is symbolic and z3 proves "
                "equality for every environment. The optimizer's five switches are symbolic booleans (32 combinations, "
                "coverage-checked) applied to four mapper classes, plus pairs of invocations in one process."
                " Extra arguments are passed positionally and by keyword.",
        "design_ref": "DESIGN.md §4 C05",
        "note": "Trusted: the uncached mapper applied afresh as the oracle. History length 2 (quick) / 3 (thorough).",
        "technique": "bounded model checking of call histories with solver-enumerated selectors and coverage queries; z3 validity queries for the evaluation pair",
    },
    "C06": {
        "level": "translation_validation",
        "text": "Per-tree translation validation: for every (parent, slot, child) skeleton of the printable fragment, every "
                "alphabet constant in every slot, every 3-level chain over a reduced alphabet and hand-picked nestings, the "
                "tree is printed and parsed back; both trees are evaluated on z3 proxies and z3 proves per path that they "
                "agree for every environment. Path assertions: equal trees after order-preserving flattening, and an "
                "identical second printed form.",
        "design_ref": "DESIGN.md §4 C06",
        "note": "Trusted: the evaluator as the meaning of both trees (C02), proxies, z3. The bulk families flatten every "
                "associative n-ary node before comparing; the literal reading (sums and products only) is checked on a "
                "dedicated family and is a known finding. Literals/identifiers come from a fixed alphabet.",
        "technique": SOLVER_TECH + " (original vs reparsed tree)",
    },
    "C07": {
        "level": "translation_validation",
        "text": "Per-string translation validation with the solver as equivalence checker: every operator/operand skeleton "
                "with <= 2 binary operators (thorough: <= 3, prefix operators in every position, 2000 seeded longer strings), "
                "ternaries, calls with keyword arguments, subscripts, attributes, tuples and parenthesisations is parsed by "
                "pymbolic.parse and imported by ASTToPymbolic; the tree is evaluated on z3 proxies, CPython's own eval of the "
                "same string runs on the same proxies, and z3 proves per path that they agree for every environment. Strings "
                "Python rejects must be rejected with the parse error."
                " Strings also cover literals under prefix operators, keyword-like names (Truex, nota), imaginary / hex / octal / binary / underscore literals, parenthesised zero-like operands and trailing commas in every bracket kind.",
        "design_ref": "DESIGN.md §4 C07",
        "note": "Trusted: CPython's parser/eval as the oracle, the evaluator as the meaning of a tree (C02), proxies, z3. "
                "Logical nodes are compared as truth values (BoolOp wrapped in bool() in the oracle). Literal and identifier "
                "spellings are enumerated. Known deviations are listed per string in known_findings.json.",
        "technique": SOLVER_TECH + "; oracle = CPython's own parser and eval on the same proxies",
    },
    "C08": {
        "level": "model_checking",
        "text": "Bounded symbolic model checking: for every skeleton tree (depth <= 2 over all node kinds; thorough adds depth 3) "
                "and 13 substitution-map shapes (keys as names / Variables / kwargs, swaps, replacements mentioning other keys, "
                "whole subscript and look-up nodes, a key that would only match after another replacement, unused keys) the "
                "real substitute() result (plain and memoizing mapper) is evaluated on z3 proxies and z3 proves per path that "
                "it equals the original tree evaluated with every replaced name / node bound to its replacement's value. Path "
                "assertions: untouched subtrees are the identical objects; plain and cached results are equal."
                " Trees include instances of a user subclass of Variable; map shapes include names that occur as attribute / keyword / prefix names and a mapping combined with keyword arguments."
                " Zero-like replacement values, hash-colliding constants in same-shaped subtrees.",
        "design_ref": "DESIGN.md §4 C08",
        "note": "Trusted: refsem/evaluator as meaning (C02), proxies, z3. For the memoizing mapper the identity clause is only "
                "asserted on trees without equal-but-distinct subtrees (memoization shares results between them).",
        "technique": SOLVER_TECH,
    },
    "C09": {
        "level": "model_checking",
        "text": "Bounded model checking: the five analysis flags are small-domain symbolic integers; per skeleton tree (every "
                "node kind at depth 1, (parent, slot, child) with composite and other children at depth 2, every constant in "
                "every slot) the explorer enumerates all 72 settings through the solver, proves coverage, and compares "
                "DependencyMapper and CachedDependencyMapper with an independent outermost-composite scan. get_num_nodes, "
                "FlopCounter and CSEAwareFlopCounter are compared with independent counts. Solver clause: with composite "
                "kinds off, evaluating the tree on z3 proxies in an environment binding only the reported variables raises "
                "UnknownVariableError on no explored path."
                " One mapper instance is also driven through a call history (tree, every subexpression, tree) per flag setting; a second fresh flop counter must count the same.",
        "design_ref": "DESIGN.md §4 C09",
        "note": "Trusted: the harness's scan/count specifications and its notion of children (expression-valued dataclass "
                "fields). Remainder is not counted as a flop (the property lists + * / **).",
        "technique": "bounded model checking: flag settings enumerated by z3 with a coverage query; symbolic execution of the evaluator on proxies for the 'needs no other value' clause",
    },
    "C10": {
        "level": "model_checking",
        "text": "Bounded symbolic model checking over the reals: for every tree of the differentiable fragment (depth <= 2 "
                "exhaustive over 29 kinds incl. every table function, constant/variable powers, conditionals, CSEs; depth 3 "
                "over a reduced alphabet) and every non-smoothness setting, the real differentiate() is applied w.r.t. x, y, a "
                "non-occurring variable and a subscript in one history; its output is evaluated by the real evaluator at a "
                "symbolic point and z3 (NRA + uninterpreted elementary functions constrained by ground instances of their "
                "identities) proves per path that it equals a forward-mode dual-number derivative written in the harness. "
                "Refusal clauses (non-smooth / unknown functions) are path assertions."
                " Kinds with the same operand OBJECT in several positions (s*s, x*y*x, (a+b)/a, a**a) are included."
                " Table functions called with another number of arguments must be refused.",
        "design_ref": "DESIGN.md §4 C10",
        "note": "Trusted: the dual-number rules in pv/props/c10.py, the evaluator (C02), z3. Reals stand in for floats; points "
                "of non-differentiability are excluded. A sat model is replayed numerically with the math module and a central "
                "finite difference; a model that only exists for the uninterpreted functions is reported inconclusive.",
        "technique": SOLVER_TECH + "; NRA with uninterpreted elementary functions",
    },
    "C11": {
        "level": "model_checking",
        "text": "Bounded symbolic model checking over the reals: flatten, ConstantFoldingMapper, CommutativeConstantFoldingMapper, "
                "TermCollector and expand/distribute are run by the real code on every tree of a polynomial/rational grammar "
                "(depth <= 2 exhaustive over 14 kinds with constants in every slot, depth 3 reduced, hand-picked cancellation "
                "cases); input and output are evaluated at a symbolic point and z3 (NRA) proves equality for every environment "
                "on every path where the input evaluates; for flatten and the folders one constant inside the tree is symbolic "
                "as well. Normal-form clauses are path assertions; for the like-terms clause z3 decides which pairs of "
                "skeleton polynomials are equal as functions and their expansions must have equal term multisets."
                " Where the input itself has no value nothing is required of the rewrite.",
        "design_ref": "DESIGN.md §4 C11",
        "note": "Trusted: the evaluator (C02, with integer constants read as exact rationals), z3's nonlinear real arithmetic. "
                "Term collection is exercised on its documented fragment only.",
        "technique": SOLVER_TECH + "; NRA; z3 as the function-equality oracle for the like-terms clause",
    },
    "C12": {
        "level": "model_checking",
        "text": "Bounded symbolic model checking: tag_common_subexpressions and CSETagMapper are run on every list built from a "
                "16-element pool of repeated, commuted (a+b / b+a), multiplicity-varied and nested subterms and pre-existing "
                "wrappers (single, pairs, sampled triples); tagged and original expressions are evaluated on z3 proxies and z3 "
                "proves per path that they agree for every environment. Sharing clauses are path assertions on instrumented "
                "evaluators, explored on every path of the symbolic environment (including where a shared child is zero): "
                "each repeated operation performed once by one evaluator, no wrapper around a wrapper, the child of a wrapper "
                "computed once over fresh and reused evaluator instances (histories <= 3), and the wrapping helpers.",
        "design_ref": "DESIGN.md §4 C12",
        "note": "Trusted: the evaluator (C02), the harness's normalised key (sums/products as multisets), proxies, z3.",
        "technique": SOLVER_TECH + "; operation / uninterpreted-call counts as path assertions",
    },
    "C13": {
        "level": "translation_validation",
        "text": "Per-program translation validation with the solver as equivalence checker: for every skeleton of the "
                "Python-expressible fragment (every kind at depth 1, every (parent, slot, child) at depth 2, constants in every "
                "slot, hand-picked nestings; thorough adds depth 3) the code produced by compile() (also after a pickle round "
                "trip), to_python_ast(), to_evaluatable_python_function() and the tree re-imported by ASTToPymbolic are run on "
                "z3 proxies and z3 proves per path that each returns what the evaluator returns for every argument assignment "
                "(arithmetic errors compared by class). Argument order is a path assertion over compile histories: one "
                "expression with 0-8 variables (some named like Python builtins) is compiled again and again in one process "
                "with every listing of <= 3 names (used or unused), twice round, and pickled."
                " A witness with exact rational arguments per float-free skeleton (no float approximation of an exact result).",
        "design_ref": "DESIGN.md §4 C13",
        "note": "Trusted: the evaluator as reference (C02), proxies, z3, CPython's compile/exec of the generated code. Operands "
                "of logical nodes are boolean-valued in this family. NotImplementedError from a translator is a clean refusal.",
        "technique": SOLVER_TECH + " (generated Python code executed on the proxies)",
    },
    "C14": {
        "level": "translation_validation",
        "text": "Per-program translation validation: the C text emitted by CCodeMapper plus the hoisted assignments is parsed by "
                "the harness's own C expression front end (C precedence and associativity, truncating integer division, 0/1 "
                "truth values) and evaluated on z3 proxies; z3 proves per path that it equals the evaluator's value for every "
                "environment in range, for every (parent, slot, child) skeleton of the C-expressible fragment in integer mode "
                "and in real mode. Mapper histories (3 expressions with shared / equal / same-prefix wrappers through one "
                "mapper and its copies) are checked for unique names, definition before use and single assignment. A "
                "counterexample is replayed by compiling a real C program with gcc where the skeleton is pure arithmetic."
                " Constant exponents 0/1/2 occur in every child position; histories include the same subexpression under different wrappers and a prefix whose generated name is reserved by the caller.",
        "design_ref": "DESIGN.md §4 C14",
        "note": "Trusted: pv/cexpr.py as the meaning of the C text (self-tested against gcc on every run), the evaluator (C02), "
                "z3. No overflow (values in a stated 64-bit-safe range); // and % only on non-negative dividend / positive "
                "divisor; floating point modelled as reals.",
        "technique": SOLVER_TECH + "; generated C parsed and given C semantics over the same proxies; gcc on replay",
    },
    "C15": {
        "level": "model_checking",
        "text": "Bounded symbolic model checking: (a) CoefficientCollector is run on 33 affine / non-affine skeletons x 4 target "
                "sets with every numeric coefficient a symbolic unbounded integer; z3 proves sum(coeff*var)+const == e for "
                "every environment and every coefficient value, coefficients are free of targets, non-affine inputs raise. (b) "
                "gaussian_elimination runs on matrices whose entries and right-hand sides are symbolic integers in [-1,1] "
                "(thorough: larger shapes, [-2,2]); Euclid's loops are run out by realising divisors; z3 proves per path that "
                "the solution set over real unknowns is unchanged in both directions. (c) solve_affine_equations_for on 121 "
                "small systems: z3 proves the returned assignments satisfy every equation for all parameter values; "
                "uniqueness/integrality oracle by exact rational elimination."
                " Target sets include the empty set."
                " Over-determined parametric systems."
                " Powers whose base or exponent mixes a target with a non-target term (38 skeletons in all).",
        "design_ref": "DESIGN.md §4 C15",
        "note": "Trusted: evaluator (C02) for coefficient expressions, z3, the harness's rational row-reduction oracle. The "
                "Gaussian-elimination claim is bounded by the entry box.",
        "technique": SOLVER_TECH + "; symbolic divisors realised by value-forking",
    },
    "C16": {
        "level": "model_checking",
        "text": "Bounded model checking of the matcher's answers: 35 hand-written patterns plus generated sums / products of 2-3 pattern pieces (sums, products, quotients, powers, calls, "
                "subscripts, comparisons, conditionals, repeated variables) against targets built as instances (9 substitutions, "
                "operand orders as built / reversed / flattened with extra operands) and independently (instances of other "
                "patterns), for the full and the minimal candidate set. For every record the real UnidirectionalUnifier returns: "
                "only candidates are bound; the instantiated pattern and the target are evaluated by the real evaluator on z3 "
                "proxies (atoms unbounded symbolic integers, called functions / subscripted arrays uninterpreted) and z3 proves "
                "the values equal for all atom values and all interpretations - a necessary condition of equality modulo AC; the "
                "AC-canonical forms must coincide (this is also the replay criterion); injective renamings must yield a record. "
                "The matchpy bridge: From(To(e)) on 47 expressions; match / match_anywhere / replace_all with dot and star "
                "wildcards under the same instantiation law (multiset multiplicities via a value query with R := x*z)."
                " Repeated variables under non-commutative nodes, targets using the pattern's own names, near misses, sibling node classes; replace_all below call arguments and subscript indices.",
        "design_ref": "DESIGN.md §4 C16",
        "note": "Structure is enumerated, not symbolic: the quantifier over (pattern, target) pairs is bounded-exhaustive "
                "over the listed families only. matchpy's own algorithms are exercised, not encoded. Trusted: the harness's "
                "substitution and AC-canonical form, evaluator (C02), z3.",
        "technique": SOLVER_TECH + "; value-equality under uninterpreted functions as the solver-side necessary condition, AC-canonical comparison on replay",
    },
    "C18": {
        "level": "model_checking",
        "text": "Bounded symbolic model checking: blade bitmaps are enumerated (all pairs and triples of basis blades in "
                "dimensions 0-3; thorough 4 and pairs in 5) while blade coefficients and every diagonal metric entry are "
                "unbounded symbolic integers (rationals for the inverse); the real Space/MultiVector code runs on numpy object "
                "arrays of z3 proxies and z3 proves, for all coefficients and all diagonal metrics: every product of two blades "
                "(* ^ | << >> scalar) equals the corresponding grade part of an independent list-based blade product, "
                "associativity on triples, reverse/involution (anti)automorphisms, dual, squared norm, inverse*blade = 1 where "
                "the blade is non-null; linearity in each argument on multivectors with symbolic coefficients (metrics in "
                "{1,-1,0,2}); the bit kernels on symbolic bitmaps; ==/hash/bool against coefficient-wise comparison."
                " Two-component vector / pseudovector blades: an inverse, if returned, must be one (replayed with plain rationals)."
                " Constructor family: mappings keyed by index tuples in every order (one or two keys of the same blade) or by "
                "bitmap, with symbolic coefficients that may be zero or cancel: z3 proves per path that the stored coefficient "
                "is the signed sum and that bool / ==0 / !=0 agree with it (no explicit zero is stored).",
        "design_ref": "DESIGN.md §4 C18",
        "note": "Trusted: the list-based blade product oracle, proxies, z3 (NIA). Diagonal metrics only. With bilinearity the "
                "blade-wise claims extend to all multivectors of the covered dimensions.",
        "technique": SOLVER_TECH + "; numpy object arrays of proxies inside the real Space/MultiVector",
    },
    "C19": {
        "level": "model_checking",
        "text": "Bounded symbolic model checking of the exact-arithmetic helpers: integer_power on an unbounded symbolic integer base "
                "and on 2x2 symbolic matrices with the exponent a solver-enumerated small-domain integer (coverage-checked, "
                "negative exponents refused); extended_euclidean / gcd / lcm on a symbolic pair in a box with divisors realised "
                "(Bezout identity, divisibility, greatest among all common divisors in the box, lcm*g = |q*r|); fft, ifft(fft) "
                "and sym_fft on vectors of symbolic complex numbers (pairs of reals in numpy object arrays) for every length "
                "1..12 (thorough 1..32), both signs, ifft alone: z3 (LRA) proves each output within n*1e-9 of the DFT definition with independently "
                "computed twiddles for every input in the unit box; Polynomial + - * ** divmod with symbolic integer "
                "coefficients at a symbolic point against the same operation on values; quotient nodes."
                " extended_euclidean on 60 integer polynomial pairs (Bezout identity decided at a symbolic point, divisibility by divmod; each call under an alarm).",
        "design_ref": "DESIGN.md §4 C19",
        "note": "Trusted: schoolbook definitions in the harness, proxies, z3. Reals stand in for floats in the FFT. For powers "
                "and products of a polynomial with itself the coefficients are concrete (the zero-tests are nonlinear).",
        "technique": SOLVER_TECH + "; LRA tolerance queries for the FFT",
    },
    "C20": {
        "level": "model_checking",
        "text": "Bounded model checking of structure (no value-level quantifier exists in this property): ids carried by the "
                "statements of both streams (clash patterns from a 3-name alphabet), the dependency relation (one symbolic "
                "boolean per ordered pair), the identifiers each statement slot uses and the caller's filter answer per name are "
                "symbolic small-domain choices enumerated by z3 with coverage queries; per path the real fuse / disambiguate / "
                "disambiguate_and_fuse / get_dot_dependency_graph / get_read_variables run and are compared with independent "
                "scans and a reference transitive reduction (identifier alphabets include names a fresh-name generator would produce; "
                "all DAGs on <= 5 statements in 2 listing orders, chains of 6-8 with "
                "<= 2 shortcut edges in 3 orders; repeated fusion of fused streams).",
        "design_ref": "DESIGN.md §4 C20",
        "note": "Trusted: the harness's identifier scan (variables of lhs, rhs, condition, excluding called function names) and "
                "its reference transitive reduction. Whether the written name itself counts as read is left open.",
        "technique": "bounded model checking: small-domain choices enumerated by z3 with coverage queries; path assertions against independent scans and a reference transitive reduction",
    },
    "C17": {
        "level": "model_checking",
        "text": "Bounded symbolic model checking with the hash seed as a symbolic variable: hash() in the generated and legacy "
                "methods is the uninterpreted function H(seed, structural code); the harness hashes / compares / copies under "
                "seed1, pickles (protocols 0, 2, highest; thorough all), switches to seed2 and unpickles; z3 proves for all "
                "seed1, seed2 and all symbolic field values that the unpickled object equals, and hashes like, the object "
                "rebuilt from source under seed2 - for every node class, 7 user classes (decorated / legacy / mixed) and 6 "
                "operation orders. Persistent keys (PersistentHashWalkMapper bytes, pytools KeyBuilder digests) are compared "
                "across object sharing, cached hashes and two hash functions. CompiledExpression pickles; their argument order "
                "under every pair of hash functions (solver-chosen models of H realising each slot order of the free "
                "variables in CPython's set table, coverage-checked, set-order model validated on every run). A small concrete "
                "family runs real producer/consumer interpreters (PYTHONHASHSEED, -O) as confirmation only.",
        "design_ref": "DESIGN.md §4 C17",
        "note": "Partial by nature: real OS processes, CPython's set/dict iteration order under PYTHONHASHSEED and -O "
                "producer/consumer pairs cannot be encoded; they are only sampled by the 8-pair concrete family. Trusted: the "
                "UF model of hash.",
        "technique": SOLVER_TECH + "; hash() as an uninterpreted function of a symbolic seed that is switched across the pickle boundary",
    },
}

_PENDING = "check not built yet in this session (the design in DESIGN.md applies; will be claimed once its harness exists)"
NOT_APPLICABLE = {f"C{i:02d}": _PENDING for i in range(1, 21)}

NOTES = ("All checks are `./check <ID> --tier quick|thorough` (cwd /verif). They import pymbolic from /repo's working tree on "
         "every run. Exit 0 = held on everything explored, 1 = replayed violation(s) not listed in known_findings.json, "
         "2 = harness error and no replayed violation (harness errors go to stderr). See DESIGN.md.")
