"""Reference semantics, written independently of pymbolic's mappers.

`den(expr, env)` is the denotation by structural recursion on the *concrete class*
of each node, applying the ordinary Python operator or construct the node
denotes.  It runs equally on plain Python numbers and on the z3 proxies, so impl
and oracle yield two terms over the same variables.
"""
from __future__ import annotations

import operator

import numpy as np

import pymbolic.primitives as p


class RefUnknownVariable(Exception):
    pass


_CMP = {"==": operator.eq, "!=": operator.ne, "<": operator.lt, "<=": operator.le,
        ">": operator.gt, ">=": operator.ge}


def den(e, env, cse_cache=None, overrides=()):
    """overrides: sequence of (node, value): a node structurally equal to `node` (same class) denotes `value`
    (used by C08 for whole-node substitution keys)."""
    if cse_cache is None:
        cse_cache = {}

    def d(x):
        return den(x, env, cse_cache, overrides)

    t = type(e)
    for k, v in overrides:
        if type(k) is t and isinstance(e, p.Expression) and k == e:
            return v
    if not isinstance(e, p.Expression):
        if isinstance(e, tuple):
            return tuple(d(c) for c in e)
        if isinstance(e, list):
            return [d(c) for c in e]
        if isinstance(e, np.ndarray):
            out = np.empty(e.shape, dtype=object)
            for i in np.ndindex(e.shape):
                out[i] = d(e[i])
            return out
        return e
    if isinstance(e, p.Variable):
        if e.name not in env:
            raise RefUnknownVariable(e.name)
        return env[e.name]
    if t is p.Sum:
        vals = [d(c) for c in e.children]
        acc = 0
        for v in vals:
            acc = acc + v
        return acc
    if t is p.Product:
        vals = [d(c) for c in e.children]
        acc = 1
        for v in vals:
            acc = acc * v
        return acc
    if t is p.Quotient:
        a, b = d(e.numerator), d(e.denominator)
        return a / b
    if t is p.FloorDiv:
        a, b = d(e.numerator), d(e.denominator)
        return a // b
    if t is p.Remainder:
        a, b = d(e.numerator), d(e.denominator)
        return a % b
    if t is p.Power:
        a, b = d(e.base), d(e.exponent)
        return a ** b
    if t is p.LeftShift:
        a, b = d(e.shiftee), d(e.shift)
        return a << b
    if t is p.RightShift:
        a, b = d(e.shiftee), d(e.shift)
        return a >> b
    if t is p.BitwiseNot:
        return ~d(e.child)
    if t in (p.BitwiseOr, p.BitwiseXor, p.BitwiseAnd):
        f = {p.BitwiseOr: operator.or_, p.BitwiseXor: operator.xor,
             p.BitwiseAnd: operator.and_}[t]
        vals = [d(c) for c in e.children]
        acc = vals[0]
        for v in vals[1:]:
            acc = f(acc, v)
        return acc
    if t is p.LogicalNot:
        return not d(e.child)
    if t is p.LogicalOr:
        for c in e.children:       # short circuit, truth value
            if d(c):
                return True
        return False
    if t is p.LogicalAnd:
        for c in e.children:
            if not d(c):
                return False
        return True
    if t is p.Comparison:
        a, b = d(e.left), d(e.right)
        return _CMP[e.operator](a, b)
    if t is p.If:
        if d(e.condition):
            return d(e.then)
        return d(e.else_)
    if t is p.Min:
        vals = [d(c) for c in e.children]
        m = vals[0]
        for v in vals[1:]:
            if v < m:
                m = v
        return m
    if t is p.Max:
        vals = [d(c) for c in e.children]
        m = vals[0]
        for v in vals[1:]:
            if v > m:
                m = v
        return m
    if t is p.Call:
        f = d(e.function)
        return f(*[d(a) for a in e.parameters])
    if t is p.CallWithKwargs:
        f = d(e.function)
        args = [d(a) for a in e.parameters]
        kw = {k: d(v) for k, v in e.kw_parameters.items()}
        return f(*args, **kw)
    if t is p.Subscript:
        agg = d(e.aggregate)
        return agg[d(e.index)]
    if t is p.Lookup:
        return getattr(d(e.aggregate), e.name)
    if isinstance(e, p.CommonSubexpression):
        key = id(e)
        if key not in cse_cache:
            cse_cache[key] = d(e.child)
        return cse_cache[key]
    if t is p.NaN:
        return float("nan")
    from pymbolic.rational import Rational
    if t is Rational:
        return d(e.numerator) / d(e.denominator)
    from pymbolic.polynomial import Polynomial
    if t is Polynomial:
        b = d(e.base)
        acc = 0
        for exp, coeff in e.data:
            acc = acc + d(coeff) * b ** exp
        return acc
    raise NotImplementedError(f"refsem: no denotation for {t.__name__}")
