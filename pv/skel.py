"""Skeleton generators: concrete tree shapes as nested tuples.

A skeleton description ("desc") is
    ('v', name, type)        leaf variable; type in num|bool|fn|arr|arr2|rec
    ('c', value)             leaf constant
    (kind, child, ...)       inner node, kind in KINDS
It is picklable, has a canonical text (`show`) and builds a real pymbolic tree
(`build`).  Shapes are enumerated exhaustively within the stated bound; values
are left to the solver.
"""
from __future__ import annotations

import itertools

import numpy as np
from immutabledict import immutabledict

import pymbolic.primitives as p

CONSTS = [0, 1, -1, 2, 3, -2, 0.0, 1.0, 2.5, True, False]


class K:
    def __init__(self, name, slots, make, tags=()):
        self.name = name
        self.slots = slots       # tuple of slot types
        self.make = make
        self.tags = frozenset(tags)


def _nary(cls):
    return lambda *c: cls(tuple(c))


def _cmp(op):
    return lambda a, b: p.Comparison(a, op, b)


KINDS: dict[str, K] = {}


def _k(name, slots, make, tags=()):
    KINDS[name] = K(name, tuple(slots), make, tags)


N, B = "num", "bool"
_k("sum2", [N, N], _nary(p.Sum))
_k("sum3", [N, N, N], _nary(p.Sum))
_k("prod2", [N, N], _nary(p.Product))
_k("prod3", [N, N, N], _nary(p.Product))
_k("quot", [N, N], p.Quotient, ["div"])
_k("floordiv", [N, N], p.FloorDiv)
_k("rem", [N, N], p.Remainder)
_k("pow", [N, "exp"], p.Power, ["pow"])
# powers with the constant exponents that printers / code generators special-case
_k("pow2", [N], lambda a: p.Power(a, 2), ["pow"])
_k("pow1", [N], lambda a: p.Power(a, 1), ["pow"])
_k("pow0", [N], lambda a: p.Power(a, 0), ["pow"])
_k("lshift", [N, "shift"], p.LeftShift, ["bit"])
_k("rshift", [N, "shift"], p.RightShift, ["bit"])
_k("bnot", [N], p.BitwiseNot, ["bit"])
_k("bor2", [N, N], _nary(p.BitwiseOr), ["bit"])
_k("bxor2", [N, N], _nary(p.BitwiseXor), ["bit"])
_k("band2", [N, N], _nary(p.BitwiseAnd), ["bit"])
_k("bor3", [N, N, N], _nary(p.BitwiseOr), ["bit"])
_k("bxor3", [N, N, N], _nary(p.BitwiseXor), ["bit"])
_k("band3", [N, N, N], _nary(p.BitwiseAnd), ["bit"])
_k("lnot", [B], p.LogicalNot, ["logic"])
_k("lor2", [B, B], _nary(p.LogicalOr), ["logic"])
_k("land2", [B, B], _nary(p.LogicalAnd), ["logic"])
_k("lor3", [B, B, B], _nary(p.LogicalOr), ["logic"])
_k("land3", [B, B, B], _nary(p.LogicalAnd), ["logic"])
for _op, _nm in [("==", "eq"), ("!=", "ne"), ("<", "lt"), ("<=", "le"), (">", "gt"), (">=", "ge")]:
    _k("cmp_" + _nm, [N, N], _cmp(_op), ["cmp"])
_k("if", [B, N, N], p.If, ["if"])
_k("min2", [N, N], _nary(p.Min), ["minmax"])
_k("max2", [N, N], _nary(p.Max), ["minmax"])
_k("min3", [N, N, N], _nary(p.Min), ["minmax"])
_k("min1", [N], lambda a: p.Min((a,)), ["minmax"])
_k("max1", [N], lambda a: p.Max((a,)), ["minmax"])
_k("max3", [N, N, N], _nary(p.Max), ["minmax"])
_k("call0", ["fn"], lambda f: p.Call(f, ()), ["call"])
_k("call1", ["fn", N], lambda f, a: p.Call(f, (a,)), ["call"])
_k("call2", ["fn", N, N], lambda f, a, b: p.Call(f, (a, b)), ["call"])
_k("callkw", ["fn", N, N, N],
   lambda f, a, b, c: p.CallWithKwargs(f, (a,), immutabledict({"k": b, "j": c})), ["call"])
_k("callkw0", ["fn", N],
   lambda f, b: p.CallWithKwargs(f, (), immutabledict({"k": b})), ["call"])
_k("sub1", ["arr", N], p.Subscript, ["sub"])
_k("sub1t", ["arr", N], lambda a, i: p.Subscript(a, (i,)), ["sub"])
_k("sub2", ["arr2", N, N], lambda a, i, j: p.Subscript(a, (i, j)), ["sub"])
_k("lookup", ["rec"], lambda a: p.Lookup(a, "fld"), ["lookup"])
_k("cse", [N], lambda c: p.CommonSubexpression(c), ["cse"])
_k("cse_pfx", [N], lambda c: p.CommonSubexpression(c, "pfx", p.cse_scope.EXPRESSION), ["cse"])
_k("cse_glob", [N], lambda c: p.CommonSubexpression(c, None, p.cse_scope.GLOBAL), ["cse"])
_k("tuple2", [N, N], lambda a, b: (a, b), ["struct"])
_k("list2", [N, N], lambda a, b: [a, b], ["struct"])
_k("array2", [N, N], lambda a, b: _objarr(a, b), ["struct"])

_k("subslice2", ["arr", N, N], lambda a, i, j: p.Subscript(a, p.Slice((i, j))), ["sub", "slice"])
_k("subslice3", ["arr", N, N, N], lambda a, i, j, k: p.Subscript(a, p.Slice((i, j, k))), ["sub", "slice"])
_k("subslice_lo", ["arr", N], lambda a, i: p.Subscript(a, p.Slice((i, None))), ["sub", "slice"])
_k("subslice_hi", ["arr", N], lambda a, j: p.Subscript(a, p.Slice((None, j))), ["sub", "slice"])
_k("subslice_all", ["arr"], lambda a: p.Subscript(a, p.Slice((None, None))), ["sub", "slice"])
_k("subslice_tup", ["arr2", N, N], lambda a, i, j: p.Subscript(a, (p.Slice((i, None)), j)), ["sub", "slice"])
_k("tuple1", [N], lambda a: (a,), ["struct"])
_k("tuple3", [N, N, N], lambda a, b, c: (a, b, c), ["struct"])
_k("neg", [N], lambda a: p.Product((-1, a)), [])

_k("subst", [N, N], lambda c, val: p.Substitution(c, ("u",), (val,)), ["subst"])
_k("deriv", [N], lambda c: p.Derivative(c, ("u",)), ["deriv"])
_k("slice2", [N, N], lambda a, b: p.Slice((a, b)), ["slice"])
_k("slice3", [N, N, N], lambda a, b, c: p.Slice((a, b, c)), ["slice"])

ARITH = ["sum2", "sum3", "prod2", "prod3", "quot", "floordiv", "rem", "pow", "pow2"]
BITS = ["lshift", "rshift", "bnot", "bor2", "bxor2", "band2", "bor3", "bxor3", "band3"]
LOGIC = ["lnot", "lor2", "land2", "lor3", "land3"]
CMPS = ["cmp_eq", "cmp_ne", "cmp_lt", "cmp_le", "cmp_gt", "cmp_ge"]
MISC = ["if", "min2", "max2", "min3", "max3"]
LEAFY = ["call0", "call1", "call2", "callkw", "callkw0", "sub1", "sub2", "lookup", "cse", "cse_pfx"]
STRUCT = ["tuple2", "list2", "array2"]
VALUE_KINDS = ARITH + BITS + LOGIC + CMPS + MISC + LEAFY


def _objarr(*items):
    a = np.empty(len(items), dtype=object)
    for i, x in enumerate(items):
        a[i] = x
    return a


def is_leaf(d):
    return d[0] in ("v", "c")


@p.expr_dataclass()
class TaggedVar(p.Variable):
    """a user subclass of Variable with an extra field: dispatches to map_variable through the class hierarchy"""
    tag: str


def build(d):
    if d[0] == "v":
        if d[2] == "tnum":
            return TaggedVar(d[1], "t")
        return p.Variable(d[1])
    if d[0] == "c":
        return d[1]
    k = KINDS[d[0]]
    return k.make(*[build(c) for c in d[1:]])


def show(d):
    if d[0] == "v":
        return d[1] + ("'" if d[2] == "tnum" else "")
    if d[0] == "c":
        return repr(d[1])
    return f"{d[0]}({', '.join(show(c) for c in d[1:])})"


def leaves(d, out=None):
    """variables in order of first appearance: list of (name, type)"""
    if out is None:
        out = []
    if d[0] == "v":
        if (d[1], d[2]) not in out:
            out.append((d[1], d[2]))
    elif d[0] != "c":
        for c in d[1:]:
            leaves(c, out)
    return out


def tags(d, out=None):
    if out is None:
        out = set()
    if not is_leaf(d):
        out |= KINDS[d[0]].tags
        for c in d[1:]:
            tags(c, out)
    return out


def kinds_in(d, out=None):
    if out is None:
        out = []
    if not is_leaf(d):
        out.append(d[0])
        for c in d[1:]:
            kinds_in(c, out)
    return out


def depth(d):
    return 0 if is_leaf(d) else 1 + max(depth(c) for c in d[1:])


class Namer:
    def __init__(self):
        self.n = 0

    def leaf(self, typ):
        self.n += 1
        t = {"num": "x", "exp": "e", "shift": "s", "bool": "b", "fn": "f",
             "arr": "a", "arr2": "m", "rec": "o"}[typ]
        return ("v", f"{t}{self.n}", typ)


def node(kind, namer, sub=None):
    """kind node with fresh leaves; sub: {slot_index: desc}"""
    k = KINDS[kind]
    ch = []
    for i, st in enumerate(k.slots):
        if sub and i in sub:
            ch.append(sub[i])
        else:
            ch.append(namer.leaf(st))
    return (kind, *ch)


VALUE_SLOTS = ("num", "bool", "exp", "shift")


def depth1(kinds=None):
    for kd in (kinds or VALUE_KINDS + STRUCT):
        yield node(kd, Namer())


def depth2(parents=None, children=None):
    """every (parent kind, value slot, child kind)"""
    for pk in (parents or VALUE_KINDS + STRUCT):
        k = KINDS[pk]
        for i, st in enumerate(k.slots):
            if st not in VALUE_SLOTS:
                continue
            for ck in (children or VALUE_KINDS):
                nm = Namer()
                # leaves left of slot i named first
                ch = []
                for j, sj in enumerate(k.slots):
                    if j == i:
                        ch.append(node(ck, nm))
                    else:
                        ch.append(nm.leaf(sj))
                yield (pk, *ch)


def with_consts(parents=None, consts=None):
    """parent with one constant child in one value slot"""
    for pk in (parents or VALUE_KINDS + STRUCT):
        k = KINDS[pk]
        for i, st in enumerate(k.slots):
            if st not in VALUE_SLOTS:
                continue
            for c in (consts or CONSTS):
                nm = Namer()
                ch = []
                for j, sj in enumerate(k.slots):
                    ch.append(("c", c) if j == i else nm.leaf(sj))
                yield (pk, *ch)


def depth3(kinds):
    """every chain parent > child > grandchild over a reduced alphabet, every slot"""
    for pk in kinds:
        k = KINDS[pk]
        for i, st in enumerate(k.slots):
            if st not in VALUE_SLOTS:
                continue
            for ck in kinds:
                kc = KINDS[ck]
                for i2, st2 in enumerate(kc.slots):
                    if st2 not in VALUE_SLOTS:
                        continue
                    for gk in kinds:
                        nm = Namer()

                        def mk(kind, slot, inner):
                            kk = KINDS[kind]
                            return (kind, *[inner() if j == slot else nm.leaf(sj)
                                            for j, sj in enumerate(kk.slots)])
                        yield mk(pk, i, lambda: mk(ck, i2, lambda: node(gk, nm)))


def product_chunks(seq, n):
    return [seq[i::n] for i in range(n)]


def all_pairs(seq):
    return itertools.product(seq, seq)
