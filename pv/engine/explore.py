"""Path explorer: DFS re-execution of a harness function over symbolic decisions.

A harness is an ordinary Python callable.  While it runs, proxies from
``pv.engine.sym`` call :func:`branch` (for ``bool(SymBool)``) and
:func:`realise` (to value-fork a bounded symbolic integer).  Every decision is
checked for feasibility with z3 under the current path condition; the untaken
alternative is scheduled.  The harness is re-executed from scratch for every
path (like CrossHair / KLEE-style re-execution), so it must be deterministic.

Per path the explorer yields a :class:`Path` with the path condition (list of
z3 BoolRefs), the harness' return value or the exception it raised, and the
decision trace.  Budgets (max_paths, solver timeout) make a run *inconclusive*
(never silently truncated): see :attr:`Exploration.complete`.
"""
from __future__ import annotations

import time
from dataclasses import dataclass, field
from typing import Any, Callable

import z3


class PathAbort(BaseException):
    """Raised inside a harness to abandon the current path (infeasible / budget)."""


class Inconclusive(BaseException):
    """Solver returned unknown / budget exceeded while deciding a fork."""


class HarnessError(Exception):
    """The harness or engine is broken (exit code 2)."""


@dataclass
class Path:
    pc: list            # list of z3 BoolRef
    result: Any = None
    exc: BaseException | None = None
    decisions: tuple = ()
    notes: dict = field(default_factory=dict)

    @property
    def pc_term(self):
        return z3.And(*self.pc) if self.pc else z3.BoolVal(True)


@dataclass
class Stats:
    paths: int = 0
    forks: int = 0
    queries: int = 0
    unsat: int = 0
    sat: int = 0
    unknown: int = 0
    solver_s: float = 0.0
    coverage_queries: int = 0

    def add(self, other: "Stats"):
        for k in self.__dataclass_fields__:
            setattr(self, k, getattr(self, k) + getattr(other, k))

    def asdict(self):
        return {k: (round(v, 4) if isinstance(v, float) else v)
                for k, v in self.__dict__.items()}


class _State:
    """State of the path currently being executed."""

    def __init__(self, explorer: "Explorer", prefix: tuple):
        self.ex = explorer
        self.prefix = prefix
        self.pos = 0
        self.trace: list = []
        self.pc: list = list(explorer.pre)   # preconditions are part of every path condition
        self.fresh = 0
        self.notes: dict = {}
        s = explorer.solver
        s.reset()
        s.set("timeout", explorer.timeout_ms)
        if explorer.rlimit:
            s.set("rlimit", explorer.rlimit)     # z3's nonlinear engines do not always honour the timeout
        for c in explorer.pre:
            s.add(c)

    def add(self, cond):
        self.pc.append(cond)
        self.ex.solver.add(cond)


_CUR: _State | None = None
GLOBAL_STATS = Stats()


def current() -> _State | None:
    return _CUR


def fresh_name(prefix: str) -> str:
    st = _CUR
    if st is None:
        _fresh_global[0] += 1
        return f"{prefix}!g{_fresh_global[0]}"
    st.fresh += 1
    return f"{prefix}!{st.fresh}"


_fresh_global = [0]


def note(key, value):
    if _CUR is not None:
        _CUR.notes[key] = value


def assume(cond):
    """Add an assumption to the current path; abort the path if infeasible."""
    st = _CUR
    if st is None:
        raise HarnessError("assume() outside exploration")
    if isinstance(cond, bool):
        if not cond:
            raise PathAbort("assume(False)")
        return
    cond = getattr(cond, "term", cond)
    st.add(cond)
    r = st.ex._check()
    if r == z3.unsat:
        raise PathAbort("infeasible assumption")
    if r == z3.unknown:
        raise Inconclusive("assume: unknown")


def branch(cond) -> bool:
    """Fork on a z3 BoolRef; returns the Python bool taken on this path."""
    st = _CUR
    c = z3.simplify(cond)
    if z3.is_true(c):
        return True
    if z3.is_false(c):
        return False
    if st is None:
        raise HarnessError(f"bool() of symbolic value outside exploration: {cond}")
    ex = st.ex
    if st.pos < len(st.prefix):
        kind, val = st.prefix[st.pos]
        if kind != "b":
            raise HarnessError("non-deterministic harness (expected branch decision)")
        st.pos += 1
        st.trace.append(("b", val))
        st.add(c if val else z3.Not(c))
        return val
    # new decision
    can_t = ex._check_with(c)
    can_f = ex._check_with(z3.Not(c))
    if can_t == z3.unknown or can_f == z3.unknown:
        raise Inconclusive(f"fork feasibility unknown: {c}")
    if can_t == z3.sat and can_f == z3.sat:
        ex.stats.forks += 1
        ex._schedule(tuple(st.trace) + (("b", False),))
        val = True
    elif can_t == z3.sat:
        val = True
    elif can_f == z3.sat:
        val = False
    else:
        raise PathAbort("path condition unsat")
    st.pos += 1
    st.trace.append(("b", val))
    st.add(c if val else z3.Not(c))
    return val


def realise(term, what="int") -> int:
    """Value-fork: return a concrete Python int for z3 Int/BV term `term`,
    scheduling every other feasible value.  The harness precondition must bound
    the term, otherwise max_paths is hit and the run is inconclusive."""
    st = _CUR
    t = z3.simplify(term)
    if z3.is_int_value(t):
        return t.as_long()
    if z3.is_bv_value(t):
        return t.as_signed_long()
    if st is None:
        raise HarnessError(f"realise() outside exploration: {term}")
    ex = st.ex
    if st.pos < len(st.prefix):
        kind, val = st.prefix[st.pos]
        if kind == "v":
            st.pos += 1
            st.trace.append(("v", val))
            st.add(t == val)
            return val
        if kind == "r":   # pending: find a new value not in excluded
            excluded = val
        else:
            raise HarnessError("non-deterministic harness (expected realise decision)")
    else:
        excluded = ()
    for e in excluded:
        st.add(t != e)
    r = ex._check()
    if r == z3.unknown:
        raise Inconclusive(f"realise unknown: {t}")
    if r == z3.unsat:
        raise PathAbort("no more values")
    m = ex.solver.model()
    v = m.eval(t, model_completion=True)
    v = v.as_signed_long() if z3.is_bv_value(v) else v.as_long()
    ex.stats.forks += 1
    ex._schedule(tuple(st.trace) + (("r", tuple(excluded) + (v,)),))
    # the excluded disequalities are implied by t == v; drop them from pc
    for _ in excluded:
        st.pc.pop()
    st.pos += 1
    st.trace.append(("v", v))
    st.add(t == v)
    return v


class Explorer:
    def __init__(self, pre=(), max_paths=512, timeout_ms=10000, ctx=None, rlimit=0):
        self.rlimit = rlimit
        self.pre = list(pre)
        self.max_paths = max_paths
        self.timeout_ms = timeout_ms
        self.solver = z3.Solver()
        self.stats = Stats()
        self.work: list[tuple] = []
        self.complete = True
        self.inconclusive_reasons: list[str] = []

    # -- solver helpers
    def _check(self):
        t0 = time.perf_counter()
        r = self.solver.check()
        self._account(r, time.perf_counter() - t0)
        return r

    def _check_with(self, c):
        t0 = time.perf_counter()
        r = self.solver.check(c)
        self._account(r, time.perf_counter() - t0)
        return r

    def _account(self, r, dt):
        st = self.stats
        st.queries += 1
        st.solver_s += dt
        if r == z3.sat:
            st.sat += 1
        elif r == z3.unsat:
            st.unsat += 1
        else:
            st.unknown += 1

    def _schedule(self, prefix):
        self.work.append(prefix)

    # -- main loop
    def run(self, fn: Callable[[], Any]):
        """Generator of Path objects."""
        global _CUR
        self.work = [()]
        npaths = 0
        while self.work:
            if npaths >= self.max_paths:
                self.complete = False
                self.inconclusive_reasons.append(
                    f"max_paths={self.max_paths} reached with {len(self.work)} pending")
                break
            prefix = self.work.pop()
            st = _State(self, prefix)
            prev = _CUR
            _CUR = st
            res, exc = None, None
            aborted = False
            try:
                res = fn()
            except PathAbort:
                aborted = True
            except Inconclusive as e:
                aborted = True
                self.complete = False
                self.inconclusive_reasons.append(str(e))
            except HarnessError:
                _CUR = prev
                raise
            except Exception as e:  # noqa: BLE001 - a path may end in any exception
                exc = e
            finally:
                _CUR = prev
            if aborted:
                continue
            npaths += 1
            self.stats.paths += 1
            yield Path(list(st.pc), res, exc, tuple(st.trace), st.notes)
        GLOBAL_STATS.add(self.stats)

    def coverage_unsat(self, paths, pre=None) -> bool:
        """Coverage query: pre /\\ not(pc_1 \\/ ... \\/ pc_n) must be unsat."""
        s = z3.Solver()
        s.set("timeout", self.timeout_ms)
        for c in (self.pre if pre is None else pre):
            s.add(c)
        s.add(z3.Not(z3.Or(*[p.pc_term for p in paths])) if paths else z3.BoolVal(True))
        t0 = time.perf_counter()
        r = s.check()
        self._account(r, time.perf_counter() - t0)
        self.stats.coverage_queries += 1
        return r == z3.unsat


def explore(fn, pre=(), max_paths=512, timeout_ms=10000):
    ex = Explorer(pre=pre, max_paths=max_paths, timeout_ms=timeout_ms)
    paths = list(ex.run(fn))
    return ex, paths


# {{{ second-solver sampling (E3): every k-th deciding query is written out as SMT-LIB2
# with z3's verdict; pv.common re-solves the files with cvc5 and the system z3 binary

XSOLVE = {"dir": None, "every": 25, "cap": 8, "n": 0, "written": 0}


def _xsolve_dump(solver, verdict):
    d = XSOLVE["dir"]
    if d is None:
        return
    XSOLVE["n"] += 1
    if XSOLVE["n"] % XSOLVE["every"] != 1 or XSOLVE["written"] >= XSOLVE["cap"] or verdict == z3.unknown:
        return
    try:
        txt = solver.to_smt2()
    except Exception:  # noqa: BLE001
        return
    if len(txt) > 200000:
        return
    import os
    XSOLVE["written"] += 1
    with open(os.path.join(d, f"{os.getpid()}_{XSOLVE['n']}.smt2"), "w") as f:
        f.write(f"; z3-verdict: {verdict}\n(set-logic ALL)\n{txt}")

# }}}


class Query:
    """Validity queries `pc => goal` with accounting; returns (verdict, model)."""

    def __init__(self, timeout_ms=10000, rlimit=0):
        self.rlimit = rlimit
        self.timeout_ms = timeout_ms
        self.stats = Stats()
        self.smt_samples: list[str] = []

    def valid(self, pc, goal, extra=()):
        """Return ('unsat', None) if pc /\\ extra => goal holds for all values,
        ('sat', model) with a counterexample, or ('unknown', None)."""
        s = z3.Solver()
        s.set("timeout", self.timeout_ms)
        if self.rlimit:
            s.set("rlimit", self.rlimit)
        for c in pc:
            s.add(c)
        for c in extra:
            s.add(c)
        s.add(z3.Not(goal))
        if len(self.smt_samples) < 3:
            try:
                self.smt_samples.append(s.to_smt2()[:1500])
            except Exception:  # noqa: BLE001
                pass
        t0 = time.perf_counter()
        r = s.check()
        dt = time.perf_counter() - t0
        self.stats.queries += 1
        self.stats.solver_s += dt
        _xsolve_dump(s, r)
        if r == z3.unsat:
            self.stats.unsat += 1
            return "unsat", None
        if r == z3.sat:
            self.stats.sat += 1
            return "sat", s.model()
        self.stats.unknown += 1
        return "unknown", None

    def satisfiable(self, conds):
        s = z3.Solver()
        s.set("timeout", self.timeout_ms)
        for c in conds:
            s.add(c)
        t0 = time.perf_counter()
        r = s.check()
        self.stats.queries += 1
        self.stats.solver_s += time.perf_counter() - t0
        if r == z3.sat:
            self.stats.sat += 1
            return "sat", s.model()
        if r == z3.unsat:
            self.stats.unsat += 1
            return "unsat", None
        self.stats.unknown += 1
        return "unknown", None
