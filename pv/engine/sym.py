"""z3-term proxies that behave like Python numbers under operator overloading.

Families
  'int'  : SymInt  -- z3 Int, Python's unbounded int
  'real' : SymFrac -- z3 Real, exact rationals (floats are treated as exact reals)
  'bv'   : SymBV   -- z3 BitVec(64) for skeletons with shifts / bitwise operators;
           every value carries a conservative interval [lo, hi] computed with
           Python ints, so that 64-bit wrap-around can never happen unnoticed
           (a value that may not fit 62 bits makes the run Inconclusive).
  SymBool: z3 Bool; bool() forks the path; usable as 0/1 in arithmetic.

Python semantics that differ from z3's are spelled out: floor division and
remainder take the sign of the divisor, ZeroDivisionError / ValueError are raised
as real exceptions on the path where they apply, 0**0 == 1, bool+int, the
NotImplemented protocol towards non-numbers.
Proxies are unhashable on purpose.
"""
from __future__ import annotations

from fractions import Fraction

import z3

from . import explore
from .explore import HarnessError, Inconclusive, branch, fresh_name, realise

BVW = 64
BV_SAFE = 1 << 62

_DEFAULT_FAMILY = ["int"]
REALISE_DIVISORS = [False]
MAX_SHIFT = [12]
POW_EXP_RANGE = (-2, 3)


def set_family(f):
    _DEFAULT_FAMILY[0] = f


class Unsupported(Exception):
    """Operation outside the proxy model (e.g. `/` in the BV family)."""


class Sym:
    __slots__ = ("term",)
    __hash__ = None  # type: ignore[assignment]

    def __repr__(self):
        return f"<{type(self).__name__} {self.term}>"

    def __iter__(self):
        raise TypeError("symbolic scalar is not iterable")


# {{{ SymBool

class SymBool(Sym):
    __slots__ = ()

    def __init__(self, term):
        self.term = term

    def __bool__(self):
        return branch(self.term)

    def as_num(self):
        fam = _DEFAULT_FAMILY[0]
        if fam == "bv":
            return SymBV(z3.If(self.term, z3.BitVecVal(1, BVW), z3.BitVecVal(0, BVW)), 0, 1)
        if fam == "real":
            return SymFrac(z3.If(self.term, z3.RealVal(1), z3.RealVal(0)))
        return SymInt(z3.If(self.term, z3.IntVal(1), z3.IntVal(0)))

    def traits(self):
        from pymbolic.traits import IntegerTraits
        return IntegerTraits()

    # comparisons
    def __eq__(self, o):
        if isinstance(o, SymBool):
            return SymBool(self.term == o.term)
        if isinstance(o, bool):
            return SymBool(self.term == z3.BoolVal(o))
        if isinstance(o, (int, float, Fraction, Sym)):
            return self.as_num() == o
        return NotImplemented

    def __ne__(self, o):
        r = self.__eq__(o)
        if r is NotImplemented:
            return r
        return SymBool(z3.Not(r.term))

    # bitwise on bools give bools
    def __and__(self, o):
        if isinstance(o, SymBool):
            return SymBool(z3.And(self.term, o.term))
        if isinstance(o, bool):
            return SymBool(z3.And(self.term, z3.BoolVal(o)))
        return self.as_num() & o

    def __or__(self, o):
        if isinstance(o, SymBool):
            return SymBool(z3.Or(self.term, o.term))
        if isinstance(o, bool):
            return SymBool(z3.Or(self.term, z3.BoolVal(o)))
        return self.as_num() | o

    def __xor__(self, o):
        if isinstance(o, SymBool):
            return SymBool(z3.Xor(self.term, o.term))
        if isinstance(o, bool):
            return SymBool(z3.Xor(self.term, z3.BoolVal(o)))
        return self.as_num() ^ o

    __rand__ = __and__
    __ror__ = __or__
    __rxor__ = __xor__

    def __invert__(self):
        return ~self.as_num()


def _bool_arith(name):
    def f(self, *a):
        return getattr(self.as_num(), name)(*a)
    f.__name__ = name
    return f


for _n in ["__add__", "__radd__", "__sub__", "__rsub__", "__mul__", "__rmul__",
           "__truediv__", "__rtruediv__", "__floordiv__", "__rfloordiv__",
           "__mod__", "__rmod__", "__pow__", "__rpow__", "__lshift__", "__rlshift__",
           "__rshift__", "__rrshift__", "__neg__", "__pos__", "__abs__",
           "__lt__", "__le__", "__gt__", "__ge__", "__divmod__", "__rdivmod__"]:
    setattr(SymBool, _n, _bool_arith(_n))

# }}}


def _is_num(o):
    return isinstance(o, (int, float, Fraction)) and not isinstance(o, Sym)


def _frac_of(o):
    if isinstance(o, float):
        if o != o or o in (float("inf"), float("-inf")):
            raise Unsupported("non-finite float")
        return Fraction(o)
    return Fraction(o)


def _realval(o):
    fr = _frac_of(o)
    return z3.RealVal(f"{fr.numerator}/{fr.denominator}")


# {{{ SymInt

class SymInt(Sym):
    __slots__ = ()

    def __init__(self, term):
        self.term = term

    def traits(self):
        from pymbolic.traits import IntegerTraits
        return IntegerTraits()

    @staticmethod
    def _lift(o):
        """Return ('int', term) / ('real', term) / None"""
        if isinstance(o, SymInt):
            return "int", o.term
        if isinstance(o, SymBool):
            return "int", z3.If(o.term, z3.IntVal(1), z3.IntVal(0))
        if isinstance(o, bool):
            return "int", z3.IntVal(int(o))
        if isinstance(o, int):
            return "int", z3.IntVal(o)
        if isinstance(o, SymFrac):
            return "real", o.term
        if isinstance(o, (float, Fraction)):
            return "real", _realval(o)
        return None

    def _bin(self, o, fint, freal, intvalued=False):
        l = self._lift(o)
        if l is None:
            return NotImplemented
        k, t = l
        if k == "int":
            return fint(self.term, t)
        if intvalued and isinstance(o, (float, Fraction)) and _frac_of(o).denominator == 1:
            # int (//|%) integer-valued float: same value as the integer operation
            r = fint(self.term, z3.IntVal(int(_frac_of(o))))
            return SymFrac(z3.ToReal(r.term))
        return freal(z3.ToReal(self.term), t)

    def __bool__(self):
        return branch(self.term != 0)

    def __index__(self):
        return realise(self.term)

    def __add__(self, o):
        return self._bin(o, lambda a, b: SymInt(a + b), lambda a, b: SymFrac(a + b))

    def __radd__(self, o):
        return self._bin(o, lambda a, b: SymInt(b + a), lambda a, b: SymFrac(b + a))

    def __sub__(self, o):
        return self._bin(o, lambda a, b: SymInt(a - b), lambda a, b: SymFrac(a - b))

    def __rsub__(self, o):
        return self._bin(o, lambda a, b: SymInt(b - a), lambda a, b: SymFrac(b - a))

    def __mul__(self, o):
        return self._bin(o, lambda a, b: SymInt(a * b), lambda a, b: SymFrac(a * b))

    def __rmul__(self, o):
        return self._bin(o, lambda a, b: SymInt(b * a), lambda a, b: SymFrac(b * a))

    def __neg__(self):
        return SymInt(-self.term)

    def __pos__(self):
        return self

    def __abs__(self):
        return SymInt(z3.If(self.term >= 0, self.term, -self.term))

    def __truediv__(self, o):
        return self._bin(o, lambda a, b: _real_div(z3.ToReal(a), z3.ToReal(b), "division by zero"),
                         lambda a, b: _real_div(a, b, "float division by zero"))

    def __rtruediv__(self, o):
        return self._bin(o, lambda a, b: _real_div(z3.ToReal(b), z3.ToReal(a), "division by zero"),
                         lambda a, b: _real_div(b, a, "float division by zero"))

    def __floordiv__(self, o):
        return self._bin(o, lambda a, b: _int_floordiv(a, b), lambda a, b: _real_floordiv(a, b), True)

    def __rfloordiv__(self, o):
        return self._bin(o, lambda a, b: _int_floordiv(b, a), lambda a, b: _real_floordiv(b, a), True)

    def __mod__(self, o):
        return self._bin(o, lambda a, b: _int_mod(a, b), lambda a, b: _real_mod(a, b), True)

    def __rmod__(self, o):
        return self._bin(o, lambda a, b: _int_mod(b, a), lambda a, b: _real_mod(b, a), True)

    def __divmod__(self, o):
        q = self // o
        if q is NotImplemented:
            return q
        return q, self % o

    def __rdivmod__(self, o):
        q = o // self
        return q, o % self

    def __pow__(self, o, mod=None):
        if mod is not None:
            raise Unsupported("3-arg pow")
        return _pow(self, o)

    def __rpow__(self, o):
        l = self._lift(o)
        if l is None:
            return NotImplemented
        base = SymInt(l[1]) if l[0] == "int" else SymFrac(l[1])
        return _pow(base, self)

    def _cmp(self, o, f):
        l = self._lift(o)
        if l is None:
            return NotImplemented
        k, t = l
        if k == "int":
            return SymBool(f(self.term, t))
        return SymBool(f(z3.ToReal(self.term), t))

    def __eq__(self, o):
        return self._cmp(o, lambda a, b: a == b)

    def __ne__(self, o):
        return self._cmp(o, lambda a, b: a != b)

    def __lt__(self, o):
        return self._cmp(o, lambda a, b: a < b)

    def __le__(self, o):
        return self._cmp(o, lambda a, b: a <= b)

    def __gt__(self, o):
        return self._cmp(o, lambda a, b: a > b)

    def __ge__(self, o):
        return self._cmp(o, lambda a, b: a >= b)

    # bitwise: not available in the Int family
    def _nobit(self, *a):
        raise Unsupported("bitwise/shift operator on SymInt (use the 'bv' family)")

    __and__ = __rand__ = __or__ = __ror__ = __xor__ = __rxor__ = _nobit
    __lshift__ = __rlshift__ = __rshift__ = __rrshift__ = __invert__ = _nobit


def _zero_check(b_is_zero, msg):
    if branch(b_is_zero):
        raise ZeroDivisionError(msg)


def _maybe_realise_int(b):
    if REALISE_DIVISORS[0] and not z3.is_int_value(z3.simplify(b)):
        return z3.IntVal(realise(b))
    return b


def _int_floordiv(a, b):
    b = _maybe_realise_int(b)
    _zero_check(b == 0, "integer division or modulo by zero")
    bs = z3.simplify(b)
    if z3.is_int_value(bs):
        bv = bs.as_long()
        return SymInt(a / b if bv > 0 else (-a) / (-b))
    return SymInt(z3.If(b > 0, a / b, (-a) / (-b)))


def _int_mod(a, b):
    b = _maybe_realise_int(b)
    _zero_check(b == 0, "integer division or modulo by zero")
    bs = z3.simplify(b)
    if z3.is_int_value(bs):
        bv = bs.as_long()
        q = a / b if bv > 0 else (-a) / (-b)
    else:
        q = z3.If(b > 0, a / b, (-a) / (-b))
    return SymInt(a - b * q)


def _real_div(a, b, msg):
    _zero_check(b == 0, msg)
    return SymFrac(a / b)


def _real_floor(t):
    ts = z3.simplify(t)
    if z3.is_app_of(ts, z3.Z3_OP_TO_REAL):
        return ts            # floor of an integer-valued term is the term itself
    return z3.ToReal(z3.ToInt(t))


def _real_floordiv(a, b):
    _zero_check(b == 0, "float floor division by zero")
    return SymFrac(_real_floor(a / b))


def _real_mod(a, b):
    _zero_check(b == 0, "float modulo")
    return SymFrac(a - b * _real_floor(a / b))


POW_UF = {}


def _pow_uf(base_t, exp_t):
    f = POW_UF.get("pow")
    if f is None:
        f = POW_UF["pow"] = z3.Function("pow", z3.RealSort(), z3.RealSort(), z3.RealSort())
    t = f(base_t, exp_t)
    # facts every power function satisfies (they keep the uninterpreted symbol from producing counterexamples that
    # cannot be replayed, such as 0**2 != 0): x**0 = 1, x**1 = x, 1**y = 1, 0**y = 0 for y > 0
    st = explore.current()
    if st is not None:
        zero, one = z3.RealVal(0), z3.RealVal(1)
        st.add(z3.And(z3.Implies(exp_t == zero, t == one), z3.Implies(exp_t == one, t == base_t),
                      z3.Implies(base_t == one, t == one), z3.Implies(z3.And(base_t == zero, exp_t > zero), t == zero)))
    return SymFrac(t)


def _pow(base, e):
    """base: SymInt|SymFrac|SymBV ; e: number or proxy"""
    if isinstance(e, SymBool):
        e = e.as_num()
    if isinstance(e, bool):
        e = int(e)
    if isinstance(e, SymFrac):
        st = z3.simplify(e.term)
        if z3.is_rational_value(st):     # a proxy that is in fact a constant (e.g. the value of x**0)
            e = Fraction(st.numerator_as_long(), st.denominator_as_long())
    if isinstance(e, SymFrac) or isinstance(e, (float, Fraction)):
        if _is_num(e) and _frac_of(e).denominator == 1:
            e = int(_frac_of(e))
            r = _pow(base, e)
            return r if isinstance(r, SymFrac) or not isinstance(r, SymInt) else SymFrac(z3.ToReal(r.term))
        bt = base.term if isinstance(base, SymFrac) else z3.ToReal(base.term)
        et = e.term if isinstance(e, SymFrac) else _realval(e)
        if explore.current() is not None and branch(z3.And(bt == 0, et < 0)):
            raise ZeroDivisionError("0.0 cannot be raised to a negative power")
        return _pow_uf(bt, et)
    if isinstance(e, (SymInt, SymBV)):
        if not (z3.is_int_value(z3.simplify(e.term)) or z3.is_bv_value(z3.simplify(e.term))):
            lo, hi = POW_EXP_RANGE
            if isinstance(e, SymBV):
                lo = max(lo, 0)
            # symbolic exponents are case-split on a stated small range (an assumption of the run)
            explore.assume(z3.And(e.term >= lo, e.term <= hi))
            explore.note("assume_exponent_range", (lo, hi))
        e = realise(e.term)
    if not isinstance(e, int):
        return NotImplemented
    if e >= 0:
        if e > 64:
            raise Inconclusive("exponent > 64")
        result = None
        for _ in range(e):
            result = base if result is None else result * base
        if result is None:
            return type(base)._one()
        return result
    # negative exponent: 1/base**-e (Python returns float for ints)
    if isinstance(base, SymBV):
        raise Unsupported("negative exponent in bv family")
    pos = _pow(base, -e)
    pt = pos.term if isinstance(pos, SymFrac) else z3.ToReal(pos.term)
    bt = base.term if isinstance(base, SymFrac) else z3.ToReal(base.term)
    _zero_check(bt == 0, "0.0 cannot be raised to a negative power")
    return SymFrac(1 / pt)


SymInt._one = staticmethod(lambda: SymInt(z3.IntVal(1)))

# }}}


# {{{ SymFrac

class SymFrac(Sym):
    __slots__ = ()

    def __init__(self, term):
        self.term = term

    def traits(self):
        from pymbolic.traits import FieldTraits
        return FieldTraits()

    @staticmethod
    def _lift(o):
        if isinstance(o, SymFrac):
            return o.term
        if isinstance(o, SymInt):
            return z3.ToReal(o.term)
        if isinstance(o, SymBool):
            return z3.If(o.term, z3.RealVal(1), z3.RealVal(0))
        if isinstance(o, (bool, int, float, Fraction)):
            return _realval(o)
        return None

    def _bin(self, o, f):
        t = self._lift(o)
        if t is None:
            return NotImplemented
        return f(self.term, t)

    def __bool__(self):
        return branch(self.term != 0)

    def __add__(self, o):
        return self._bin(o, lambda a, b: SymFrac(a + b))

    def __radd__(self, o):
        return self._bin(o, lambda a, b: SymFrac(b + a))

    def __sub__(self, o):
        return self._bin(o, lambda a, b: SymFrac(a - b))

    def __rsub__(self, o):
        return self._bin(o, lambda a, b: SymFrac(b - a))

    def __mul__(self, o):
        return self._bin(o, lambda a, b: SymFrac(a * b))

    def __rmul__(self, o):
        return self._bin(o, lambda a, b: SymFrac(b * a))

    def __neg__(self):
        return SymFrac(-self.term)

    def __pos__(self):
        return self

    def __abs__(self):
        return SymFrac(z3.If(self.term >= 0, self.term, -self.term))

    def __truediv__(self, o):
        return self._bin(o, lambda a, b: _real_div(a, b, "division by zero"))

    def __rtruediv__(self, o):
        return self._bin(o, lambda a, b: _real_div(b, a, "division by zero"))

    def __floordiv__(self, o):
        return self._bin(o, _real_floordiv)

    def __rfloordiv__(self, o):
        return self._bin(o, lambda a, b: _real_floordiv(b, a))

    def __mod__(self, o):
        return self._bin(o, _real_mod)

    def __rmod__(self, o):
        return self._bin(o, lambda a, b: _real_mod(b, a))

    def __divmod__(self, o):
        q = self // o
        if q is NotImplemented:
            return q
        return q, self % o

    def __rdivmod__(self, o):
        q = o // self
        if q is NotImplemented:
            return q
        return q, o % self

    def __pow__(self, o, mod=None):
        return _pow(self, o)

    def __rpow__(self, o):
        t = self._lift(o)
        if t is None:
            return NotImplemented
        return _pow(SymFrac(t), self)

    def _cmp(self, o, f):
        t = self._lift(o)
        if t is None:
            return NotImplemented
        return SymBool(f(self.term, t))

    def __eq__(self, o):
        return self._cmp(o, lambda a, b: a == b)

    def __ne__(self, o):
        return self._cmp(o, lambda a, b: a != b)

    def __lt__(self, o):
        return self._cmp(o, lambda a, b: a < b)

    def __le__(self, o):
        return self._cmp(o, lambda a, b: a <= b)

    def __gt__(self, o):
        return self._cmp(o, lambda a, b: a > b)

    def __ge__(self, o):
        return self._cmp(o, lambda a, b: a >= b)

    def _nobit(self, *a):
        raise TypeError("unsupported operand type(s) for bitwise op: 'float'")

    __and__ = __rand__ = __or__ = __ror__ = __xor__ = __rxor__ = _nobit
    __lshift__ = __rlshift__ = __rshift__ = __rrshift__ = __invert__ = _nobit


SymFrac._one = staticmethod(lambda: SymFrac(z3.RealVal(1)))

# }}}


# {{{ SymBV

def _bvval(v):
    return z3.BitVecVal(v, BVW)


class SymBV(Sym):
    """64-bit two's complement term + conservative Python-int interval."""
    __slots__ = ("lo", "hi")

    def __init__(self, term, lo, hi):
        if lo <= -BV_SAFE or hi >= BV_SAFE:
            raise Inconclusive("bv magnitude bound exceeds 62 bits")
        self.term = term
        self.lo = lo
        self.hi = hi

    def traits(self):
        from pymbolic.traits import IntegerTraits
        return IntegerTraits()

    @staticmethod
    def _lift(o):
        if isinstance(o, SymBV):
            return o
        if isinstance(o, SymBool):
            return SymBV(z3.If(o.term, _bvval(1), _bvval(0)), 0, 1)
        if isinstance(o, bool):
            return SymBV(_bvval(int(o)), int(o), int(o))
        if isinstance(o, int):
            return SymBV(_bvval(o), o, o)
        if isinstance(o, (float, Fraction, SymFrac, SymInt)):
            raise Unsupported("mixing bv family with non-integers")
        return None

    def _bin(self, o, f, swap=False):
        r = self._lift(o)
        if r is None:
            return NotImplemented
        return f(r, self) if swap else f(self, r)

    def __bool__(self):
        return branch(self.term != 0)

    def __index__(self):
        return realise(self.term)

    @staticmethod
    def _add(a, b):
        return SymBV(a.term + b.term, a.lo + b.lo, a.hi + b.hi)

    @staticmethod
    def _sub(a, b):
        return SymBV(a.term - b.term, a.lo - b.hi, a.hi - b.lo)

    @staticmethod
    def _mul(a, b):
        c = [a.lo * b.lo, a.lo * b.hi, a.hi * b.lo, a.hi * b.hi]
        return SymBV(a.term * b.term, min(c), max(c))

    def __add__(self, o):
        return self._bin(o, SymBV._add)

    def __radd__(self, o):
        return self._bin(o, SymBV._add, True)

    def __sub__(self, o):
        return self._bin(o, SymBV._sub)

    def __rsub__(self, o):
        return self._bin(o, SymBV._sub, True)

    def __mul__(self, o):
        return self._bin(o, SymBV._mul)

    def __rmul__(self, o):
        return self._bin(o, SymBV._mul, True)

    def __neg__(self):
        return SymBV(-self.term, -self.hi, -self.lo)

    def __pos__(self):
        return self

    def __abs__(self):
        m = max(abs(self.lo), abs(self.hi))
        return SymBV(z3.If(self.term >= 0, self.term, -self.term), 0, m)

    def __invert__(self):
        return SymBV(~self.term, -self.hi - 1, -self.lo - 1)

    @staticmethod
    def _floordiv(a, b):
        _zero_check(b.term == 0, "integer division or modulo by zero")
        q = a.term / b.term   # signed, truncating
        r = z3.SRem(a.term, b.term)
        adj = z3.And(r != 0, (r < 0) != (b.term < 0))
        m = max(abs(a.lo), abs(a.hi))
        return SymBV(z3.If(adj, q - 1, q), -m - 1, m + 1)

    @staticmethod
    def _mod(a, b):
        _zero_check(b.term == 0, "integer division or modulo by zero")
        r = z3.SRem(a.term, b.term)
        adj = z3.And(r != 0, (r < 0) != (b.term < 0))
        m = max(abs(b.lo), abs(b.hi))
        return SymBV(z3.If(adj, r + b.term, r), -m, m)

    def __floordiv__(self, o):
        return self._bin(o, SymBV._floordiv)

    def __rfloordiv__(self, o):
        return self._bin(o, SymBV._floordiv, True)

    def __mod__(self, o):
        return self._bin(o, SymBV._mod)

    def __rmod__(self, o):
        return self._bin(o, SymBV._mod, True)

    def __divmod__(self, o):
        q = self // o
        if q is NotImplemented:
            return q
        return q, self % o

    def __truediv__(self, o):
        raise Unsupported("true division in bv family")

    __rtruediv__ = __truediv__

    def __pow__(self, o, mod=None):
        return _pow(self, o)

    def __rpow__(self, o):
        r = self._lift(o)
        if r is None:
            return NotImplemented
        return _pow(r, self)

    @staticmethod
    def _shift_amount(b):
        if branch(b.term < 0):
            raise ValueError("negative shift count")
        if b.hi > MAX_SHIFT[0]:
            # bound the shift amount: recorded as an assumption of the run
            explore.assume(b.term <= MAX_SHIFT[0])
            explore.note("assume_shift_le", MAX_SHIFT[0])
            return SymBV(b.term, max(b.lo, 0), MAX_SHIFT[0])
        return SymBV(b.term, max(b.lo, 0), b.hi)

    @staticmethod
    def _lshift(a, b):
        b = SymBV._shift_amount(b)
        c = [a.lo << b.lo, a.lo << b.hi, a.hi << b.lo, a.hi << b.hi]
        return SymBV(a.term << b.term, min(c), max(c))

    @staticmethod
    def _rshift(a, b):
        b = SymBV._shift_amount(b)
        # arithmetic shift; amounts >= 64 cannot occur (MAX_SHIFT)
        c = [a.lo >> b.lo, a.lo >> b.hi, a.hi >> b.lo, a.hi >> b.hi]
        return SymBV(a.term >> b.term, min(c), max(c))

    def __lshift__(self, o):
        return self._bin(o, SymBV._lshift)

    def __rlshift__(self, o):
        return self._bin(o, SymBV._lshift, True)

    def __rshift__(self, o):
        return self._bin(o, SymBV._rshift)

    def __rrshift__(self, o):
        return self._bin(o, SymBV._rshift, True)

    @staticmethod
    def _bitbound(a, b):
        m = max(abs(a.lo), abs(a.hi), abs(b.lo), abs(b.hi), 1)
        n = 1 << m.bit_length()
        return -n, n

    @staticmethod
    def _and(a, b):
        lo, hi = SymBV._bitbound(a, b)
        return SymBV(a.term & b.term, lo, hi)

    @staticmethod
    def _or(a, b):
        lo, hi = SymBV._bitbound(a, b)
        return SymBV(a.term | b.term, lo, hi)

    @staticmethod
    def _xor(a, b):
        lo, hi = SymBV._bitbound(a, b)
        return SymBV(a.term ^ b.term, lo, hi)

    def __and__(self, o):
        return self._bin(o, SymBV._and)

    def __rand__(self, o):
        return self._bin(o, SymBV._and, True)

    def __or__(self, o):
        return self._bin(o, SymBV._or)

    def __ror__(self, o):
        return self._bin(o, SymBV._or, True)

    def __xor__(self, o):
        return self._bin(o, SymBV._xor)

    def __rxor__(self, o):
        return self._bin(o, SymBV._xor, True)

    def _cmp(self, o, f):
        r = self._lift(o)
        if r is None:
            return NotImplemented
        return SymBool(f(self.term, r.term))

    def __eq__(self, o):
        return self._cmp(o, lambda a, b: a == b)

    def __ne__(self, o):
        return self._cmp(o, lambda a, b: a != b)

    def __lt__(self, o):
        return self._cmp(o, lambda a, b: a < b)

    def __le__(self, o):
        return self._cmp(o, lambda a, b: a <= b)

    def __gt__(self, o):
        return self._cmp(o, lambda a, b: a > b)

    def __ge__(self, o):
        return self._cmp(o, lambda a, b: a >= b)


SymBV._one = staticmethod(lambda: SymBV(_bvval(1), 1, 1))

# }}}


# {{{ variables, UFs, records

def var(name, family=None, lo=None, hi=None):
    """Fresh symbolic variable (the *name* is the z3 constant's name). Returns
    (proxy, [constraints])."""
    fam = family or _DEFAULT_FAMILY[0]
    if fam == "int":
        t = z3.Int(name)
        cs = []
        if lo is not None:
            cs.append(t >= lo)
        if hi is not None:
            cs.append(t <= hi)
        return SymInt(t), cs
    if fam == "real":
        t = z3.Real(name)
        cs = []
        if lo is not None:
            cs.append(t >= lo)
        if hi is not None:
            cs.append(t <= hi)
        return SymFrac(t), cs
    if fam == "bv":
        lo = -128 if lo is None else lo
        hi = 127 if hi is None else hi
        t = z3.BitVec(name, BVW)
        return SymBV(t, lo, hi), [t >= lo, t <= hi]
    if fam == "bool":
        return SymBool(z3.Bool(name)), []
    raise ValueError(fam)


def _sort_of(p):
    if isinstance(p, SymInt):
        return z3.IntSort()
    if isinstance(p, SymFrac):
        return z3.RealSort()
    if isinstance(p, SymBV):
        return z3.BitVecSort(BVW)
    if isinstance(p, SymBool):
        return z3.BoolSort()
    raise TypeError(p)


def to_term(v, family=None):
    """Term for a proxy or a plain Python number, in the given family."""
    fam = family or _DEFAULT_FAMILY[0]
    if isinstance(v, Sym):
        if isinstance(v, SymBool):
            return v.term
        return v.term
    if isinstance(v, bool):
        return z3.BoolVal(v)
    if isinstance(v, int):
        return {"int": z3.IntVal, "real": z3.RealVal, "bv": _bvval}[fam](v)
    if isinstance(v, (float, Fraction)):
        return _realval(v)
    raise TypeError(f"no term for {v!r}")


def wrap_term(t):
    s = t.sort()
    if s == z3.IntSort():
        return SymInt(t)
    if s == z3.RealSort():
        return SymFrac(t)
    if s == z3.BoolSort():
        return SymBool(t)
    if z3.is_bv_sort(s):
        return SymBV(t, -(1 << 20), 1 << 20)
    raise TypeError(s)


_UF_REGISTRY: dict = {}


# applications recorded on the most recently executed path (ConcreteUF answers from them first, so that a replay
# sees one function even when Int- and Real-sorted signatures of it got different default values in the model)
_LAST_UF_APPS = [{}]


class UF:
    """Uninterpreted callable for environments: f(*args, **kwargs) -> proxy.
    The z3 function symbol is keyed by name, argument sorts and keyword names,
    so positional/keyword structure is part of the signature."""

    def __init__(self, name, family=None, result_range=None):
        self.name = name
        self.family = family
        self.calls = []
        self.result_range = result_range

    def __call__(self, *args, **kwargs):
        fam = self.family or _DEFAULT_FAMILY[0]
        terms = []
        for a in args:
            terms.append(_arg_term(a, fam))
        kws = tuple(sorted(kwargs))
        for k in kws:
            terms.append(_arg_term(kwargs[k], fam))
        sorts = tuple(t.sort() for t in terms)
        rs = {"int": z3.IntSort(), "real": z3.RealSort(), "bv": z3.BitVecSort(BVW)}[fam]
        key = (self.name, len(args), kws, tuple(str(s) for s in sorts), str(rs))
        f = _UF_REGISTRY.get(key)
        if f is None:
            fname = self.name if not kws else f"{self.name}${len(args)}${'$'.join(kws)}"
            fname = f"{fname}#{'_'.join(str(s)[0] for s in sorts)}"
            f = _UF_REGISTRY[key] = z3.Function(fname, *sorts, rs) if sorts else z3.Const(fname, rs)
        t = f(*terms) if sorts else f
        self.calls.append((args, kwargs))
        # one mathematical function: applications through Int- and Real-sorted signatures must agree on equal arguments
        st = explore.current()
        if st is not None and sorts:
            _LAST_UF_APPS[0] = st.__dict__.setdefault("_uf_apps", {})
            grp = _LAST_UF_APPS[0].setdefault((self.name, len(args), kws, str(rs)), [])
            for osorts, oterms, ot in grp:
                if osorts == sorts:
                    continue
                eqs = []
                for a, b in zip(terms, oterms):
                    sa, sb = a.sort(), b.sort()
                    if sa == sb:
                        eqs.append(a == b)
                    elif {str(sa), str(sb)} == {"Int", "Real"}:
                        eqs.append((z3.ToReal(a) if str(sa) == "Int" else a) == (z3.ToReal(b) if str(sb) == "Int" else b))
                    else:
                        eqs = None
                        break
                if eqs is not None:
                    st.add(z3.Implies(z3.And(*eqs), ot == t))
            grp.append((sorts, terms, t))
        if fam == "bv":
            lo, hi = self.result_range or (-128, 127)
            explore.assume(z3.And(t >= lo, t <= hi))
            return SymBV(t, lo, hi)
        return wrap_term(t)

    def __repr__(self):
        return f"<UF {self.name}>"


def _arg_term(a, fam):
    if isinstance(a, tuple):
        raise Unsupported("tuple argument to UF")
    t = to_term(a, fam)
    return t


class UFArray:
    """a[i], a[i, j] -> uninterpreted function of the index terms."""

    def __init__(self, name, family=None):
        self._uf = UF(name + "[]", family)
        # a[(i,)] is not a[i] (mappings keyed by tuples): one-element tuple indices get their own function
        self._uf1 = UF(name + "[(,)]", family)

    def __getitem__(self, idx):
        if isinstance(idx, tuple):
            if len(idx) == 1:
                return self._uf1(*idx)
            return self._uf(*idx)
        if isinstance(idx, slice):
            raise Unsupported("slice of UFArray")
        return self._uf(idx)


class Record:
    """o.f -> one variable per attribute name."""

    def __init__(self, name, family=None, attrs=None):
        object.__setattr__(self, "_name", name)
        object.__setattr__(self, "_family", family)
        object.__setattr__(self, "_attrs", attrs or {})

    def __getattr__(self, attr):
        if attr.startswith("__"):
            raise AttributeError(attr)
        d = object.__getattribute__(self, "_attrs")
        if attr not in d:
            p, cs = var(f"{self._name}.{attr}", self._family)
            for c in cs:
                explore.assume(c)
            d[attr] = p
        return d[attr]

# }}}


# {{{ equality of results as a z3 term

class Mismatch(Exception):
    """Results differ structurally (not expressible as a z3 term)."""


def eq_term(a, b, family=None, strict_bool=False):
    """z3 BoolRef stating a == b (Python value equality), recursing through
    tuples/lists/numpy arrays.  Raises Mismatch for structural differences."""
    import numpy as np
    fam = family or _DEFAULT_FAMILY[0]
    if isinstance(a, np.ndarray) or isinstance(b, np.ndarray):
        if not (isinstance(a, np.ndarray) and isinstance(b, np.ndarray)) or a.shape != b.shape:
            raise Mismatch(f"array vs {type(a).__name__}/{type(b).__name__}")
        return z3.And(*[eq_term(x, y, fam) for x, y in zip(a.flat, b.flat)]) if a.size else z3.BoolVal(True)
    if isinstance(a, (tuple, list)) or isinstance(b, (tuple, list)):
        if type(a) is not type(b) or len(a) != len(b):
            raise Mismatch(f"{type(a).__name__}[{len(a) if hasattr(a, '__len__') else ''}] vs "
                           f"{type(b).__name__}")
        return z3.And(*[eq_term(x, y, fam) for x, y in zip(a, b)]) if a else z3.BoolVal(True)
    if isinstance(a, Sym) or isinstance(b, Sym):
        if strict_bool and (isinstance(a, (SymBool, bool)) != isinstance(b, (SymBool, bool))):
            raise Mismatch("bool vs number")
        r = (a == b)
        if r is NotImplemented or isinstance(r, bool):
            raise Mismatch(f"incomparable {a!r} {b!r}")
        return r.term
    if _is_num(a) and _is_num(b):
        if isinstance(a, float) and a != a and isinstance(b, float) and b != b:
            return z3.BoolVal(True)
        return z3.BoolVal(a == b)
    if a is None and b is None:
        return z3.BoolVal(True)
    try:
        same = a == b
        return z3.BoolVal(bool(same))
    except HarnessError:
        raise
    except Exception as e:  # noqa: BLE001
        raise Mismatch(str(e)) from None


def truth_term(v):
    """z3 BoolRef for Python truthiness of v."""
    if isinstance(v, SymBool):
        return v.term
    if isinstance(v, Sym):
        return v.term != 0
    return z3.BoolVal(bool(v))

# }}}


# {{{ model -> concrete python values

def model_value(model, v):
    """Concrete Python value (int / Fraction / bool) of proxy or term under model."""
    t = v.term if isinstance(v, Sym) else v
    r = model.eval(t, model_completion=True)
    return term_value(r)


def term_value(r):
    if z3.is_int_value(r):
        return r.as_long()
    if z3.is_bv_value(r):
        return r.as_signed_long()
    if z3.is_rational_value(r):
        fr = Fraction(r.numerator_as_long(), r.denominator_as_long())
        return fr
    if z3.is_true(r):
        return True
    if z3.is_false(r):
        return False
    if z3.is_algebraic_value(r):
        a = r.approx(20)
        return Fraction(a.numerator_as_long(), a.denominator_as_long())
    raise HarnessError(f"cannot concretise {r}")


class ConcreteUF:
    """Python callable that answers from a z3 model (for replay)."""

    def __init__(self, uf: UF, model):
        self.uf = uf
        self.model = model
        self.calls = 0
        self.apps = {k: list(v) for k, v in _LAST_UF_APPS[0].items() if k[0] == uf.name}

    def _from_apps(self, nargs, kws, rs_name, vals):
        for sorts, terms, t in self.apps.get((self.uf.name, nargs, kws, rs_name), []):
            try:
                ok = True
                for v, tm in zip(vals, terms):
                    mv = term_value(self.model.eval(tm, model_completion=True))
                    if isinstance(v, bool) != isinstance(mv, bool) and z3.is_bool(tm):
                        ok = False
                        break
                    if isinstance(v, float) and v != v:
                        ok = False
                        break
                    if isinstance(v, (int, float, Fraction)) and isinstance(mv, (int, float, Fraction)):
                        if _frac_of(v) != _frac_of(mv):
                            ok = False
                            break
                    elif v != mv:
                        ok = False
                        break
                if ok:
                    return True, term_value(self.model.eval(t, model_completion=True))
            except Exception:  # noqa: BLE001
                continue
        return False, None

    def __call__(self, *args, **kwargs):
        self.calls += 1
        fam = self.uf.family or _DEFAULT_FAMILY[0]
        prev = explore._CUR
        explore._CUR = None
        try:
            kws = tuple(sorted(kwargs))
            vals = list(args) + [kwargs[k] for k in kws]
            rs_name = str({"int": z3.IntSort(), "real": z3.RealSort(), "bv": z3.BitVecSort(BVW)}[fam])
            hit, val = self._from_apps(len(args), kws, rs_name, vals)
            if hit:
                return val
            # the function symbol is keyed by argument sorts; find the registered signature(s) for this
            # name/arity and cast the concrete arguments to them (ints fit Real, integral fractions fit Int)
            cands = []
            in_model = {d.name() for d in self.model.decls()}
            for key, f in _UF_REGISTRY.items():
                if key[0] != self.uf.name or key[1] != len(args) or key[2] != kws or key[4] != rs_name:
                    continue
                terms = []
                ok = True
                exact = True
                for v, sname in zip(vals, key[3]):
                    fr = _frac_of(v) if isinstance(v, (int, float, Fraction)) and not isinstance(v, bool) else None
                    if sname == "Int":
                        if isinstance(v, bool):
                            terms.append(z3.IntVal(int(v)))
                            exact = False
                        elif fr is not None and fr.denominator == 1:
                            terms.append(z3.IntVal(int(fr)))
                            exact = exact and isinstance(v, int)
                        else:
                            ok = False
                    elif sname == "Real":
                        if fr is None and not isinstance(v, bool):
                            ok = False
                        else:
                            terms.append(_realval(v))
                            exact = exact and not isinstance(v, int)
                    elif sname == "Bool":
                        if isinstance(v, bool):
                            terms.append(z3.BoolVal(v))
                        else:
                            ok = False
                    else:   # BitVec
                        if fr is not None and fr.denominator == 1 or isinstance(v, bool):
                            terms.append(_bvval(int(v)))
                        else:
                            ok = False
                    if not ok:
                        break
                if ok:
                    fname = f.name() if isinstance(f, z3.FuncDeclRef) else f.decl().name()
                    cands.append((fname in in_model, _explicit_entry(self.model, f, terms), exact, f, terms))
            if not cands:
                return 0
            # prefer function symbols the model actually interprets, among them a signature with an explicit
            # entry for these arguments (Int- and Real-sorted signatures of one function are linked by congruence
            # axioms on the applications that occurred, see UF.__call__), then exact sort matches
            cands.sort(key=lambda c: (c[0], c[1], c[2]), reverse=True)
            _, _, _, f, terms = cands[0]
            t = f(*terms) if terms else f
            return term_value(self.model.eval(t, model_completion=True))
        finally:
            explore._CUR = prev


def _explicit_entry(model, f, terms):
    if not terms or not isinstance(f, z3.FuncDeclRef):
        return False
    try:
        fi = model[f]
        if fi is None or not isinstance(fi, z3.FuncInterp):
            return False
        for i in range(fi.num_entries()):
            e = fi.entry(i)
            if all(z3.is_true(z3.simplify(e.arg_value(j) == terms[j])) for j in range(e.num_args())):
                return True
    except Exception:  # noqa: BLE001
        return False
    return False


class ConcreteArray:
    def __init__(self, arr: UFArray, model):
        self._f = ConcreteUF(arr._uf, model)
        self._f1 = ConcreteUF(arr._uf1, model)

    def __getitem__(self, idx):
        if isinstance(idx, tuple):
            if len(idx) == 1:
                return self._f1(*idx)
            return self._f(*idx)
        return self._f(idx)

# }}}


_INSTALLED = [False]


def install():
    """Register the proxies with pymbolic's own extension points."""
    if _INSTALLED[0]:
        return
    import pymbolic.primitives as p
    for c in (SymInt, SymFrac, SymBV, SymBool):
        p.register_constant_class(c)
    p._BOOL_CLASSES += (SymBool,)
    _INSTALLED[0] = True
