"""Translator validation (Serval-style): every proxy operator is executed with its
variables pinned to concrete operands by the path precondition, and the value
(or exception class) is compared with what CPython computes on the same
operands.  Run at the start of every check (~0.5 s); a mismatch is a harness
error (exit 2)."""
from __future__ import annotations

import operator as op
from fractions import Fraction

import z3

from . import sym
from .explore import HarnessError, explore

INT_GRID = [-7, -2, -1, 0, 1, 2, 3, 100, True, False]
BV_GRID = [-128, -7, -1, 0, 1, 2, 7, 127]
FRAC_GRID = [Fraction(-7, 2), Fraction(-1, 3), Fraction(0), Fraction(1, 2),
             Fraction(5, 3), Fraction(4)]

BIN_INT = [op.add, op.sub, op.mul, op.truediv, op.floordiv, op.mod, op.eq, op.ne,
           op.lt, op.le, op.gt, op.ge, divmod]
BIN_BV = [op.add, op.sub, op.mul, op.floordiv, op.mod, op.and_, op.or_, op.xor,
          op.lshift, op.rshift, op.eq, op.ne, op.lt, op.le, op.gt, op.ge]
UN_INT = [op.neg, op.pos, abs, bool, op.not_]
UN_BV = [op.neg, op.pos, abs, op.invert, bool]


_STRIDE = 1
_COUNT = [0]
_SKIP = object()


def _run(fn, pre):
    _COUNT[0] += 1
    if _COUNT[0] % _STRIDE:
        return _SKIP
    ex, paths = explore(fn, pre=pre, max_paths=8, timeout_ms=5000)
    if len(paths) != 1 or not ex.complete:
        raise HarnessError(f"selftest: expected exactly one path, got {len(paths)}")
    p = paths[0]
    if p.exc is not None:
        return ("exc", type(p.exc).__name__)
    s = z3.Solver()
    for c in pre:
        s.add(c)
    for c in p.pc:
        s.add(c)
    assert s.check() == z3.sat
    m = s.model()

    def conc(v):
        if isinstance(v, tuple):
            return tuple(conc(x) for x in v)
        if isinstance(v, sym.Sym):
            return sym.model_value(m, v)
        return v
    return ("val", conc(p.result))


def _py(fn):
    try:
        return ("val", fn())
    except Exception as e:  # noqa: BLE001
        return ("exc", type(e).__name__)


def _same(a, b):
    if a is _SKIP:
        return True
    if a[0] != b[0]:
        return False
    if a[0] == "exc":
        return a[1] == b[1]
    x, y = a[1], b[1]
    if isinstance(x, tuple):
        return isinstance(y, tuple) and all(_same(("val", i), ("val", j)) for i, j in zip(x, y))
    if isinstance(y, float):
        return abs(Fraction(x) - Fraction(y)) <= Fraction(1, 10**9) * max(1, abs(Fraction(x)))
    return x == y and isinstance(x, bool) == isinstance(y, bool)


def run_selftest(stride=1):
    global _STRIDE
    _STRIDE = stride
    _COUNT[0] = 0
    n = 0
    fails = []
    # int family (with both operands symbolic, and symbolic/concrete mixes)
    sym.set_family("int")
    for f in BIN_INT:
        for a in INT_GRID:
            for b in INT_GRID:
                ab, bb = isinstance(a, bool), isinstance(b, bool)
                pa, ca = sym.var("a", "bool" if ab else "int")
                pb, cb = sym.var("b", "bool" if bb else "int")
                pre = [pa.term == a, pb.term == b]
                exp = _py(lambda: f(a, b))
                mixes = ((pa, pb), (pa, b), (a, pb))
                for la, lb in (mixes[0], mixes[1 + (n % 2)]):
                    got = _run(lambda: f(la, lb), pre)
                    n += 1
                    if not _same(got, exp):
                        fails.append((f.__name__, a, b, got, exp))
    for e in (0, 1, 2, 3, -1, -2):
        for a in INT_GRID:
            pa, _ = sym.var("a", "int")
            got = _run(lambda: pa ** e, [pa.term == int(a)])
            exp = _py(lambda: int(a) ** e)
            n += 1
            if not _same(got, exp):
                fails.append(("pow", a, e, got, exp))
            pe, _ = sym.var("e", "int")
            got = _run(lambda: pa ** pe, [pa.term == int(a), pe.term == e])
            n += 1
            if not _same(got, exp):
                fails.append(("pow_sym", a, e, got, exp))
    for f in UN_INT:
        for a in INT_GRID:
            pa, _ = sym.var("a", "bool" if isinstance(a, bool) else "int")
            got = _run(lambda: f(pa), [pa.term == a])
            exp = _py(lambda: f(a))
            n += 1
            if not _same(got, exp):
                fails.append((f.__name__, a, None, got, exp))
    # real family
    sym.set_family("real")
    for f in BIN_INT:
        for a in FRAC_GRID:
            for b in FRAC_GRID + [2, -3, 0]:
                pa, _ = sym.var("a", "real")
                pre = [pa.term == sym._realval(a)]
                if isinstance(b, Fraction):
                    pb, _ = sym.var("b", "real")
                    pre.append(pb.term == sym._realval(b))
                else:
                    pb = b
                got = _run(lambda: f(pa, pb), pre)
                exp = _py(lambda: f(a, b))
                n += 1
                if not _same(got, exp):
                    fails.append(("real:" + f.__name__, a, b, got, exp))
                got = _run(lambda: f(pb, pa), pre)
                exp = _py(lambda: f(b, a))
                n += 1
                if not _same(got, exp):
                    fails.append(("real-r:" + f.__name__, b, a, got, exp))
    for e in (0, 1, 2, -1, -2):
        for a in FRAC_GRID:
            pa, _ = sym.var("a", "real")
            got = _run(lambda: pa ** e, [pa.term == sym._realval(a)])
            exp = _py(lambda: a ** e)
            n += 1
            if not _same(got, exp):
                fails.append(("real-pow", a, e, got, exp))
    # bv family
    sym.set_family("bv")
    for f in BIN_BV:
        for a in BV_GRID:
            for b in BV_GRID:
                if f in (op.lshift, op.rshift) and b > 12:
                    continue
                pa, ca = sym.var("a", "bv")
                pb, cb = sym.var("b", "bv")
                pre = ca + cb + [pa.term == a, pb.term == b]
                exp = _py(lambda: f(a, b))
                mixes = ((pa, pb), (pa, b), (a, pb))
                for la, lb in (mixes[0], mixes[1 + (n % 2)]):
                    got = _run(lambda: f(la, lb), pre)
                    n += 1
                    if not _same(got, exp):
                        fails.append(("bv:" + f.__name__, a, b, got, exp))
    for f in UN_BV:
        for a in BV_GRID:
            pa, ca = sym.var("a", "bv")
            got = _run(lambda: f(pa), ca + [pa.term == a])
            exp = _py(lambda: f(a))
            n += 1
            if not _same(got, exp):
                fails.append(("bv:" + f.__name__, a, None, got, exp))
    for e in (0, 1, 2, 3):
        for a in BV_GRID[1:-1]:
            pa, ca = sym.var("a", "bv", -8, 8)
            got = _run(lambda: pa ** e, ca + [pa.term == a])
            exp = _py(lambda: a ** e)
            n += 1
            if not _same(got, exp):
                fails.append(("bv-pow", a, e, got, exp))
    # bool family
    sym.set_family("int")
    for f in (op.and_, op.or_, op.xor, op.eq, op.ne, op.add, op.mul, op.lt):
        for a in (True, False):
            for b in (True, False, 0, 1, 3):
                pa, _ = sym.var("a", "bool")
                if isinstance(b, bool):
                    pb, _ = sym.var("b", "bool")
                    pre = [pa.term == a, pb.term == b]
                else:
                    if f in (op.and_, op.or_, op.xor):
                        continue
                    pb = b
                    pre = [pa.term == a]
                got = _run(lambda: f(pa, pb), pre)
                exp = _py(lambda: f(a, b))
                n += 1
                if not _same(got, exp):
                    fails.append(("bool:" + f.__name__, a, b, got, exp))
    sym.set_family("int")
    if fails:
        raise HarnessError(f"translator self-test failed on {len(fails)} of {n} cases; first: {fails[:5]}")
    return {"cases": n // stride, "failures": 0, "stride": stride}


if __name__ == "__main__":
    import time
    t = time.time()
    print(run_selftest(), round(time.time() - t, 2), "s")
