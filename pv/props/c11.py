"""C11 — algebraic rewrites preserve value and reach their normal forms.

Each rewrite (flatten, plain / commutative constant folding, term collection,
distribute/expand) is applied by the real code to every tree of a polynomial /
rational grammar; input and output are evaluated by the real evaluator in a
symbolic environment over the reals and z3 (NRA) proves equality for every
environment on every path where the input evaluates.  For flatten and the constant
folders, constants inside the tree are symbolic too.  Normal-form clauses are path
assertions; z3 is also the oracle for "equal as functions" in the like-terms clause."""
from __future__ import annotations

import itertools

import z3

import pymbolic.primitives as p
from pv import harness as H
from pv.common import ItemResult, Violation
from pv.engine import sym
from pv.engine.explore import Explorer, HarnessError, Query

BOUNDS = {"quick": {"trees": "polynomial/rational grammar (sum2 sum3 prod2 prod3 neg quot pow_k, k in -2..3) depth <= 2 exhaustive "
                             "+ depth 3 over 5 kinds, leaves x y z and constants 0 1 -1 2 3", "symbolic_constants": "flatten / folders: one symbolic "
                             "constant c", "max_paths": 64, "solver_timeout_ms": 10000},
          "thorough": {"trees": "depth 3 over 8 kinds", "max_paths": 256, "solver_timeout_ms": 60000}}
ASSUMPTIONS = ["exact commutative arithmetic over the reals", "the evaluator gives the meaning of trees (C02)",
               "term collection is applied to its documented fragment (sums of products of powers and leaves)"]
RULE = "one item per (rewrite, tree); non-trivial = input evaluated on >= 1 path and the outputs were compared"

KINDS = {
    "sum2": (2, lambda a, b: p.Sum((a, b))), "sum3": (3, lambda a, b, c: p.Sum((a, b, c))),
    "prod2": (2, lambda a, b: p.Product((a, b))), "prod3": (3, lambda a, b, c: p.Product((a, b, c))),
    "neg": (1, lambda a: p.Product((-1, a))), "quot": (2, p.Quotient),
    "pow2": (1, lambda a: p.Power(a, 2)), "pow3": (1, lambda a: p.Power(a, 3)), "pow0": (1, lambda a: p.Power(a, 0)),
    "powm1": (1, lambda a: p.Power(a, -1)), "powm2": (1, lambda a: p.Power(a, -2)), "powy": (2, p.Power),
    "cse": (1, lambda a: p.CommonSubexpression(a)), "call": (1, lambda a: p.Call(p.Variable("f"), (a,))),
    "pow1": (1, lambda a: p.Power(a, 1)), "fdiv": (2, p.FloorDiv), "rem": (2, p.Remainder),
}
POLY = ["sum2", "sum3", "prod2", "prod3", "neg", "pow2", "pow3", "pow1"]
RATIONAL = POLY + ["quot", "powm1", "powm2", "pow0"]
ALLK = RATIONAL + ["powy", "cse", "call", "fdiv", "rem"]
LEAVES = ["x", "y", "z", 0, 1, -1, 2, 3]


def build(d, c=None):
    if not isinstance(d, tuple):
        if d == "c":
            return c
        return p.Variable(d) if isinstance(d, str) else d
    return KINDS[d[0]][1](*[build(a, c) for a in d[1:]])


def show(d):
    if not isinstance(d, tuple):
        return str(d)
    return f"{d[0]}({', '.join(show(a) for a in d[1:])})"


def kinds_of(d, out=None):
    out = [] if out is None else out
    if isinstance(d, tuple):
        out.append(d[0])
        for a in d[1:]:
            kinds_of(a, out)
    return out


def _args(n, off=0):
    pool = ["x", "y", "x", "z"]
    return [pool[(off + i) % 4] for i in range(n)]


def gen_trees(kinds, tier, d3kinds):
    out = []
    for k in kinds:
        n = KINDS[k][0]
        out.append((k, *_args(n)))
        for i in range(n):
            for c in [0, 1, -1, 2, 3]:
                a = _args(n)
                a[i] = c
                out.append((k, *a))
    for pk in kinds:
        n = KINDS[pk][0]
        for i in range(n):
            for ck in kinds:
                a = _args(n, 1)
                a[i] = (ck, *_args(KINDS[ck][0]))
                out.append((pk, *a))
                if KINDS[ck][0] >= 2:
                    a2 = list(a)
                    a2[i] = (ck, 2, *_args(KINDS[ck][0] - 1, 1))
                    out.append((pk, *a2))
    for k1 in d3kinds:
        for i1 in range(KINDS[k1][0]):
            for k2 in d3kinds:
                for i2 in range(KINDS[k2][0]):
                    for k3 in d3kinds:
                        a2 = _args(KINDS[k2][0], 1)
                        a2[i2] = (k3, *_args(KINDS[k3][0]))
                        a1 = _args(KINDS[k1][0], 2)
                        a1[i1] = (k2, *a2)
                        out.append((k1, *a1))
    seen, res = set(), []
    for d in out:
        s = show(d)
        if s not in seen:
            seen.add(s)
            res.append(d)
    return res


def _becomes_same_class():
    """an operand that only becomes a sum (product) through its own folding, under a sum (product) with a constant"""
    out = []
    for P3, P2, Q2, neutral in (("sum3", "sum2", "prod2", 1), ("prod3", "prod2", "sum2", 0)):
        for c1 in (2, 3):
            for c2 in (2, 4):
                inner = (Q2, neutral, (P2, c2, "y"))
                out += [(P3, c1, "x", inner), (P3, inner, c1, "x"), (P3, "x", inner, c1), (P2, c1, inner)]
        out += [(P3, 3, "x", (Q2, neutral, (P2, -3, "y"))),
                (P3, 2, (Q2, neutral, (P2, 3, "y")), (Q2, neutral, (P2, 4, "z")))]
    return out


HAND = _becomes_same_class() + [
    # operands that become a product / sum / neutral constant only through their own flattening (no constant at the top)
    ("prod2", "x", ("sum2", 0, ("prod2", "y", "z"))), ("sum2", "x", ("prod2", 1, ("sum2", "y", "z"))), ("sum2", "x", ("prod2", 0, "y")),
    ("prod2", "x", ("sum2", 1, 0)), ("prod3", "x", "y", ("sum2", 0, ("prod2", "z", "x"))), ("sum3", "x", "y", ("prod2", 1, ("sum2", "z", "x"))),
    ("fdiv", "x", ("prod2", 1, 1)), ("rem", "x", ("prod2", 1, 1)), ("fdiv", ("quot", "x", 2), ("sum2", 1, 0)), ("sum2", ("fdiv", "x", 1), "y"),
    ("prod2", "x", ("pow1", ("sum2", "y", 1))), ("pow2", ("pow1", ("sum2", "x", "y"))), ("sum3", ("pow1", ("sum2", "x", 1)), ("neg", "x"), "y"),
    ("pow1", ("prod2", ("sum2", "x", 1), "y")),
    ("pow2", ("prod2", "x", "y")), ("pow3", ("prod3", "x", "y", 2)), ("powm1", ("sum2", "x", "y")), ("powm2", ("sum2", "x", 1)),
    ("pow0", ("sum2", "x", "y")), ("prod3", "x", ("sum2", "x", "y"), ("sum2", "y", "z")),
    ("prod3", 2, ("sum2", "x", 1), ("sum2", "x", -1)), ("prod2", ("sum2", "x", "y"), ("sum2", "x", ("neg", "y"))),
    ("sum3", "x", "y", "x"), ("sum3", ("pow2", "x"), "y", ("pow2", "x")), ("sum3", "x", 1, 2),
    ("sum2", ("prod2", 2, "x"), ("prod2", 3, "x")), ("prod2", ("sum2", "x", "x"), "y"),
    ("sum2", ("pow2", ("sum2", "x", 1)), ("neg", ("pow2", "x"))), ("pow3", ("sum3", "x", "y", "z")),
    ("prod3", 3, "x", ("sum2", 2, -2)), ("prod3", "x", 0, "y"), ("prod3", ("sum2", 2, -2), "x", "y"),
    ("quot", ("sum2", "x", "y"), ("sum2", "x", ("neg", "y"))), ("quot", ("prod2", "x", ("sum2", "x", 1)), 2),
    ("prod2", ("quot", 1, "x"), ("sum2", "x", "y")), ("sum2", ("quot", "x", 2), "x"),
    ("sum2", ("sum2", "x", ("sum2", "y", "z")), "x"), ("prod2", ("prod2", "x", ("prod2", "y", "z")), "x"),
    ("sum3", 0, "x", 0), ("prod3", 1, "x", 1), ("sum2", ("sum2", 1, 2), ("sum2", "x", 3)), ("prod2", ("prod2", 2, 3), ("prod2", "x", 2)),
    ("sum2", ("prod2", 2, 3), "x"), ("prod2", ("sum2", 1, 2), "x"), ("sum2", ("pow2", 2), "x"), ("sum2", ("quot", 6, 3), "x"),
    ("cse", ("sum2", 1, ("sum2", 2, "x"))), ("call", ("sum2", ("sum2", 1, "x"), 2)),
]

REWRITES = ["flatten", "fold", "cfold", "collect", "expand"]


def items(tier):
    out = []
    d3 = ["sum2", "prod2", "neg", "pow2", "prod3"] + (["sum3", "pow3", "quot"] if tier == "thorough" else [])
    full = gen_trees(ALLK, tier, d3) + HAND
    poly = [d for d in full if all(k in RATIONAL for k in kinds_of(d))]
    seen = set()
    for rw in REWRITES:
        trees = full if rw in ("flatten", "fold", "cfold") else poly
        for d in trees:
            key = (rw, show(d))
            if key in seen:
                continue
            seen.add(key)
            out.append(("rw", rw, d, False))
        if rw in ("flatten", "fold", "cfold"):
            # the same shapes with a symbolic constant in place of the first numeric constant / as an extra operand
            for d in HAND + [t for t in full if len(kinds_of(t)) <= 2]:
                out.append(("rw", rw, _with_symconst(d), True))
    out.append(("liketerms", 0))
    out.append(("paramleak",))
    return out


def _with_symconst(d):
    done = [False]

    def rec(x):
        if isinstance(x, tuple):
            return (x[0], *[rec(a) for a in x[1:]])
        if isinstance(x, int) and not done[0]:
            done[0] = True
            return "c"
        return x
    r = rec(d)
    if not done[0]:
        r = ("sum2", r, "c")
    return r


def twins(tier):
    return [("twin", "flatten", ("sum2", "x", ("prod2", "y", 2)), False)]


def apply_rewrite(rw, e):
    import pymbolic
    from pymbolic.mapper.collector import TermCollector
    from pymbolic.mapper.constant_folder import CommutativeConstantFoldingMapper, ConstantFoldingMapper
    if rw == "flatten":
        return pymbolic.flatten(e)
    if rw == "fold":
        return ConstantFoldingMapper()(e)
    if rw == "cfold":
        return CommutativeConstantFoldingMapper()(e)
    if rw == "collect":
        return TermCollector()(e)
    if rw == "expand":
        return pymbolic.expand(e)
    raise ValueError(rw)


def is_const(e):
    return not isinstance(e, p.Expression)


def nf_violations(rw, out, d):
    """normal-form clauses as path assertions"""
    bad = []

    def walk(e, parent):
        if isinstance(e, p.Sum):
            if rw == "flatten":
                if isinstance(parent, p.Sum):
                    bad.append(f"sum directly under a sum: {parent}")
                if any(is_const(c) and c == 0 for c in e.children):
                    bad.append(f"neutral element 0 left in {e}")
            if rw in ("fold", "cfold") and sum(1 for c in e.children if is_const(c)) > 1:
                bad.append(f"more than one constant operand in {e}")
            if rw == "expand" and isinstance(parent, (p.Product,)):
                bad.append(f"sum beneath a product: {parent}")
            if rw == "expand" and isinstance(parent, p.Power) and isinstance(parent.exponent, int) \
                    and parent.exponent >= 0 and parent.base is e:
                bad.append(f"sum beneath an integer power: {parent}")
        if isinstance(e, p.Product):
            if rw == "flatten":
                if isinstance(parent, p.Product):
                    bad.append(f"product directly under a product: {parent}")
                if any(is_const(c) and c == 1 for c in e.children):
                    bad.append(f"neutral element 1 left in {e}")
            if rw == "cfold" and sum(1 for c in e.children if is_const(c)) > 1:
                bad.append(f"more than one constant operand in {e}")
        if isinstance(e, p.Expression):
            import dataclasses
            for f in dataclasses.fields(e):
                v = getattr(e, f.name)
                for c in (v if isinstance(v, tuple) else [v]):
                    if isinstance(c, p.Expression):
                        walk(c, e)
    walk(out, None)
    if rw == "expand" and isinstance(out, p.Sum):
        # like terms merged: no two terms with the same monomial
        monos = [monomial(t) for t in out.children]
        if len(set(monos)) != len(monos):
            bad.append(f"like terms not merged in {out}")
    return bad


def monomial(t):
    """(frozenset of (base, exp)) of a multiplicative term, ignoring numeric coefficients"""
    fs = t.children if isinstance(t, p.Product) else (t,)
    acc = {}
    for f in fs:
        if is_const(f):
            continue
        b, e = (f.base, f.exponent) if isinstance(f, p.Power) else (f, 1)
        acc[b] = acc.get(b, 0) + e
    return frozenset(acc.items())


def term_multiset(e):
    from fractions import Fraction
    ts = e.children if isinstance(e, p.Sum) else (e,)
    out = []
    for t in ts:
        coeff = Fraction(1)
        for f in (t.children if isinstance(t, p.Product) else (t,)):
            if is_const(f):
                coeff *= Fraction(f)
        if is_const(t):
            coeff = Fraction(t)
        if coeff != 0:
            out.append((monomial(t), coeff))
    return sorted(out, key=repr)


def in_fragment(rw, d):
    ks = kinds_of(d)
    if rw == "collect":
        # sums of multiplicative terms (products of powers / leaves), one level
        def mult(x):
            if not isinstance(x, tuple):
                return True
            if x[0] in ("prod2", "prod3", "neg"):
                return all(not isinstance(a, tuple) or a[0] in ("pow2", "pow3", "powm1", "powm2") and not isinstance(a[1], tuple)
                           for a in x[1:])
            return x[0] in ("pow2", "pow3", "powm1", "powm2") and not isinstance(x[1], tuple)
        return isinstance(d, tuple) and d[0] in ("sum2", "sum3") and all(mult(a) for a in d[1:])
    if rw == "expand":
        return all(k in POLY for k in ks)
    return True


def _exact_evaluator():
    from fractions import Fraction
    from pymbolic.mapper.evaluator import EvaluationMapper as _EM

    class ExactEvaluationMapper(_EM):
        """exact commutative arithmetic: integer constants are rationals (so 1/3 is not a float)"""

        def map_constant(self, expr):
            if isinstance(expr, int) and not isinstance(expr, bool):
                return Fraction(expr)
            return expr
    return ExactEvaluationMapper


def check_rw(rw, d, symconst, tier, twin=False):
    EvaluationMapper = _exact_evaluator()
    sym.set_family("real")
    text = f"{rw}: {show(d)}"
    res = ItemResult(item=text, sample={"rewrite": rw, "tree": show(d)})
    cvar = None
    pre = []
    if symconst:
        cvar = sym.SymInt(z3.Int("c"))
    env = {n: sym.var(n, "real")[0] for n in ("x", "y", "z")}
    env["f"] = sym.UF("f", "real")

    def viol(kind, detail, replay=None):
        res.status = "violation"
        res.violations.append(Violation(sig=f"{text} :: {kind}", kind=f"rewrite-{rw}-{kind}", detail=detail,
                                        replay=replay or {"rewrite": rw, "tree": show(d)}))

    def harness():
        e = build(d, cvar)
        try:
            out = apply_rewrite(rw, e)
        except (HarnessError, sym.Unsupported):
            raise
        except Exception as ex:  # noqa: BLE001
            return e, ("exc", ex), None, None
        o = H.outcome(lambda: EvaluationMapper(env)(e) if isinstance(e, p.Expression) else e)
        if twin:
            o = H.outcome(lambda: EvaluationMapper(env)(e) + 1)
        i = H.outcome(lambda: EvaluationMapper(env)(out) if isinstance(out, p.Expression) else out)
        return e, ("val", out), o, i

    ex = Explorer(pre=pre, max_paths=BOUNDS[tier]["max_paths"], timeout_ms=BOUNDS[tier]["solver_timeout_ms"])
    q = Query(timeout_ms=BOUNDS[tier]["solver_timeout_ms"])
    cmp_ = H.Cmp(q, "real", lenient=True)     # a rewrite may do anything where the input has no value
    seen_nf = False
    try:
        for path in ex.run(harness):
            if path.exc is not None:
                if isinstance(path.exc, (TypeError,)) and symconst and "unhashable" in str(path.exc):
                    res.note = "symbolic constant reached a hash: outside this family"
                    res.nontrivial = False
                    break
                raise HarnessError(f"harness raised {path.exc!r} on {text}")
            e, r, o, i = path.result
            if r[0] == "exc":
                if isinstance(r[1], TypeError) and symconst and "unhashable" in str(r[1]):
                    res.note = "symbolic constant reached a hash: outside this family"
                    res.nontrivial = False
                    break
                if in_fragment(rw, d):
                    viol("raises", f"{rw}({e}) raised {r[1]!r} on an input of its fragment")
                else:
                    res.note = f"refused outside fragment: {type(r[1]).__name__}"
                break
            out = r[1]
            if not seen_nf and not symconst:
                seen_nf = True
                res.path_assertions += 1
                for b in nf_violations(rw, out, d)[:1]:
                    if rw != "expand" or in_fragment(rw, d):
                        viol("normal-form", f"{rw}({e}) = {out}: {b}")
            if o[0] == "exc":
                continue          # input does not evaluate here
            verdict, model, why = cmp_(path.pc, i, o)
            res.path_assertions += 1
            if verdict in ("ok", "skip"):
                continue
            if verdict == "unknown":
                res.status = "inconclusive"
                res.note = why
                continue
            if model is None:
                model = H.path_model([], path.pc)
            cenv = H.concretise_env(env, model, exact=True)
            cc = sym.model_value(model, cvar) if symconst else None
            e2 = build(d, cc)
            try:
                out2 = apply_rewrite(rw, e2)
            except Exception as ex2:  # noqa: BLE001
                out2 = ex2
            differs, txt = H.replay_differs(
                lambda: EvaluationMapper(cenv)(out2) if isinstance(out2, p.Expression) else H._raise_if_exc(out2),
                lambda: (EvaluationMapper(cenv)(e2) if isinstance(e2, p.Expression) else e2) + (1 if twin else 0), lenient=True)
            if not differs:
                raise HarnessError(f"counterexample did not reproduce: {text} env {H.env_text(cenv)} c={cc}: {why} / {txt}")
            viol("value", f"{rw}({e2}) = {out2}; with {H.env_text(cenv)}: {txt}",
                 {"rewrite": rw, "tree": show(d), "env": H.env_text(cenv), "c": cc})
            break
    except sym.Unsupported as e:
        res.note = f"outside proxy model: {e}"
    if not ex.complete and res.status == "ok":
        res.status = "inconclusive"
        res.note = "; ".join(ex.inconclusive_reasons[:2])
    return H.finish(res, [ex.stats], q)


def check_liketerms(tier):
    """polynomials equal as functions (decided by z3) expand to sums with equal term multisets"""
    import pymbolic
    EvaluationMapper = _exact_evaluator()
    from fractions import Fraction
    sym.set_family("real")
    res = ItemResult(item="liketerms", sample={"family": "pairs of polynomial skeletons, function equality decided by z3"})
    def has_var(d):
        return any(has_var(a) for a in d[1:]) if isinstance(d, tuple) else d in ("x", "y", "z")
    polys = [d for d in gen_trees(POLY, tier, []) + HAND if all(k in POLY for k in kinds_of(d)) and has_var(d)]
    pts = [{"x": Fraction(2), "y": Fraction(-3), "z": Fraction(5)}, {"x": Fraction(1, 2), "y": Fraction(7), "z": Fraction(-1, 3)}]
    buckets = {}
    exps = {}
    for d in polys:
        e = build(d)
        try:
            ex_ = pymbolic.expand(e)
        except Exception:  # noqa: BLE001   (reported by the 'expand' items)
            continue
        exps[show(d)] = (d, e, ex_)
        key = tuple(EvaluationMapper(pt)(e) if isinstance(e, p.Expression) else e for pt in pts)
        buckets.setdefault(key, []).append(show(d))
    env = {n: sym.var(n, "real")[0] for n in ("x", "y", "z")}
    q = Query()
    for key, names in buckets.items():
        for a, b in itertools.combinations(names[:6], 2):
            da, ea, xa = exps[a]
            db, eb, xb = exps[b]
            va = EvaluationMapper(env)(ea) if isinstance(ea, p.Expression) else ea
            vb = EvaluationMapper(env)(eb) if isinstance(eb, p.Expression) else eb
            verdict, _ = q.valid([], sym.eq_term(va, vb, "real"))
            if verdict != "unsat":
                continue
            res.path_assertions += 1
            try:
                ma, mb = term_multiset(xa), term_multiset(xb)
            except Exception:  # noqa: BLE001
                continue
            if ma != mb:
                res.status = "violation"
                res.violations.append(Violation(
                    sig=f"liketerms {a} | {b}", kind="rewrite-expand-term-multiset",
                    detail=f"{ea} and {eb} are equal as functions (z3) but expand to {xa} and {xb} with different term multisets",
                    replay={"a": a, "b": b}))
    res.paths = 1
    return H.finish(res, [], q)


def check_paramleak():
    """state kept between calls: a call with the `parameters` option must not change what later default calls do"""
    import pymbolic
    from pymbolic.mapper.collector import TermCollector
    from pymbolic.mapper.distributor import DistributeMapper, distribute
    res = ItemResult(item="parameters option does not leak into later calls", sample={"family": "call histories"})
    a, b, x, y = (p.Variable(n) for n in "abxy")
    probe = p.Sum((p.Product((a, x)), p.Product((3, x)), p.Product((b, y)), y))
    before = [repr(distribute(probe)), repr(pymbolic.expand(probe)), repr(TermCollector()(probe))]
    distribute(p.Product((a, p.Sum((x, 1)))), parameters={a, b})
    DistributeMapper(TermCollector({a}))(p.Product((a, p.Sum((x, b)))))
    TermCollector({b})(p.Sum((p.Product((b, x)), x)))
    after = [repr(distribute(probe)), repr(pymbolic.expand(probe)), repr(TermCollector()(probe))]
    res.path_assertions += 3
    for nm, b_, a_ in zip(("distribute", "expand", "TermCollector"), before, after):
        if b_ != a_:
            res.status = "violation"
            res.violations.append(Violation(sig=f"paramleak {nm}", kind="rewrite-state-between-calls",
                                            detail=f"{nm}({probe}) gave {b_} before and {a_} after unrelated calls that used the "
                                                   f"`parameters` option", replay={"fn": nm}))
    out = pymbolic.expand(probe)
    for bad in nf_violations("expand", out, None)[:1]:
        res.status = "violation"
        res.violations.append(Violation(sig="paramleak expand normal form", kind="rewrite-state-between-calls",
                                        detail=f"expand({probe}) = {out}: {bad}", replay={}))
    res.paths = 1
    return res


def check_item(item, tier):
    if item[0] == "paramleak":
        return check_paramleak()
    if item[0] == "rw":
        return check_rw(item[1], item[2], item[3], tier)
    if item[0] == "twin":
        return check_rw(item[1], item[2], item[3], tier, twin=True)
    if item[0] == "liketerms":
        return check_liketerms(tier)
    raise ValueError(item)
