"""C04 — mapper dispatch and the stock traversals reach every node correctly.

Structure-only property.  The solver's part: which handlers a user mapper
implements (one symbolic boolean per handler) and what each `visit` returns (one
symbolic boolean per designated node) are symbolic; the explorer forks on them
with feasibility checks and a final coverage query proves no assignment was
skipped.  Per path, the observed handler invocations / traces are compared with an
independent specification written here."""
from __future__ import annotations

import dataclasses
import re

import numpy as np
import z3

import pymbolic.primitives as p
from pv import skel
from pv.common import ItemResult, Violation
from pv.engine import sym
from pv.engine.explore import Explorer, HarnessError

BOUNDS = {"quick": {"hierarchies": "chain of 3 decorated classes, legacy chain, mixed, mixin-before-base; all handler subsets",
                    "trees": "every node kind at depth 1, every (parent, slot, child) at depth 2, every alphabet constant in "
                             "every slot", "symbolic_visit_results": "root, first inner child, first leaf", "max_paths": 600},
          "thorough": {"trees": "quick + depth 3 over 8 kinds", "max_paths": 4000}}
ASSUMPTIONS = ["children of a node = its dataclass fields holding expressions (tuples, mappings, slice parts; None parts absent)",
               "the order in which a node's children are traversed is not specified by the property"]
RULE = "items: dispatch hierarchies, foreign objects, handler names, and per skeleton identity/walk/combine/argument clauses"


# {{{ user hierarchies

@p.expr_dataclass()
class NodeA(p.Expression):
    child: object


@p.expr_dataclass()
class NodeB(NodeA):
    extra: object


@p.expr_dataclass()
class NodeC(NodeB):
    more: object


class LegA(p.Expression):
    init_arg_names = ("child",)

    def __init__(self, child):
        self.child = child

    def __getinitargs__(self):
        return (self.child,)
    mapper_method = "map_leg_a"


class LegB(LegA):
    mapper_method = "map_leg_b"


class LegC(LegB):
    """inherits mapper_method from LegB"""


@p.expr_dataclass()
class DecOnLeg(LegA):
    """decorated child of a legacy parent: gets its own derived handler name"""
    other: object = None


class Tagged:
    """plain mix-in, not an Expression, no mapper_method"""


class TaggedVariable(Tagged, p.Variable):
    mapper_method = "map_tagged_variable"


class TaggedSum(Tagged, p.Sum):
    pass


class SubVar(p.Variable):
    """undecorated: inherits map_variable"""


@p.expr_dataclass()
class HTTPNode2D(p.Expression):
    x: object = 0


@p.expr_dataclass()
class ABc(p.Expression):
    x: object = 0


@p.expr_dataclass()
class My_Node(p.Expression):  # noqa: N801
    x: object = 0


@p.expr_dataclass()
class A(p.Expression):
    x: object = 0


@p.expr_dataclass()
class ExplicitName(p.Expression):
    x: object = 0
    mapper_method = "map_something_else"


@p.expr_dataclass()
class InheritsExplicit(ExplicitName):
    y: object = 0


HIERARCHIES = {
    "dec_chain": (lambda: NodeC(p.Variable("x"), 1, 2), ["map_node_c", "map_node_b", "map_node_a"]),
    "dec_mid": (lambda: NodeB(p.Variable("x"), 1), ["map_node_b", "map_node_a"]),
    "leg_chain": (lambda: LegC(p.Variable("x")), ["map_leg_b", "map_leg_a"]),
    "mixed": (lambda: DecOnLeg(p.Variable("x")), ["map_dec_on_leg", "map_leg_a"]),
    "mixin_var": (lambda: TaggedVariable("t"), ["map_tagged_variable", "map_variable"]),
    "mixin_sum": (lambda: TaggedSum((p.Variable("x"), 1)), ["map_sum"]),
    "subvar": (lambda: SubVar("s"), ["map_variable"]),
    "inherits_explicit": (lambda: InheritsExplicit(), ["map_inherits_explicit", "map_something_else"]),
}


def spec_snake(name):
    """independent statement of the derived handler name: CamelCase -> snake_case, acronyms kept together"""
    out = []
    for i, ch in enumerate(name):
        if i > 0 and ch.isupper():
            prev, nxt = name[i - 1], name[i + 1] if i + 1 < len(name) else ""
            if prev.islower() or (prev.isupper() and nxt.islower()):
                out.append("_")
        out.append(ch.lower())
    return "map_" + "".join(out)


def spec_expected_handler(obj, implemented):
    """first class in the MRO whose mapper_method the mapper implements"""
    for cls in type(obj).__mro__:
        mm = cls.__dict__.get("mapper_method")
        if mm is None and cls is type(obj):
            mm = getattr(cls, "mapper_method", None)
        if isinstance(mm, str) and mm in implemented:
            return mm
    return "handle_unsupported_expression"

# }}}


def children_of(x):
    """independent notion of a node's children (every expression-valued field, in field order)"""
    if isinstance(x, (tuple, list)):
        return list(x)
    if isinstance(x, np.ndarray):
        return [x[i] for i in np.ndindex(x.shape)]
    if not isinstance(x, p.Expression):
        return []
    out = []
    for f in dataclasses.fields(x):
        v = getattr(x, f.name)
        if f.name in ("variables", "name", "prefix", "scope", "operator", "data_type"):
            continue
        if isinstance(v, tuple):
            if not str(f.type).startswith("tuple["):
                out.append(v)       # a tuple in a single-expression slot (e.g. a subscript index) is itself a node
            else:
                out.extend(c for c in v if not (isinstance(x, p.Slice) and c is None))
        elif hasattr(v, "items"):
            out.extend(v.values())
        elif v is not None or not isinstance(x, p.Slice):
            out.append(v)
    return out


ALL_KINDS = (skel.VALUE_KINDS + skel.STRUCT + ["subst", "deriv", "slice2", "slice3", "subslice2", "subslice3",
                                               "subslice_lo", "subslice_hi", "subslice_all", "subslice_tup", "tuple1",
                                               "tuple3", "neg"])
D3 = ["sum2", "quot", "callkw", "sub2", "if", "cse", "subslice2", "subst"]


def items(tier):
    out = [("dispatch", h) for h in HIERARCHIES] + [("foreign",), ("names",), ("callback",)]
    seen = set()
    child_kinds = [k for k in ALL_KINDS if k not in ("list2", "array2")]   # lists/arrays only at the top level
    descs = list(skel.depth1(ALL_KINDS)) + list(skel.depth2(ALL_KINDS, child_kinds)) + list(skel.with_consts(ALL_KINDS))
    if tier == "thorough":
        descs += list(skel.depth3(D3))
    for d in descs:
        k = skel.show(d)
        if k in seen:
            continue
        seen.add(k)
        out.append(("tree", d))
    out.append(("extranodes",))
    return out


def twins(tier):
    return [("twin_dispatch",), ("twin_walk",)]


# {{{ dispatch

def check_dispatch(hname, twin=False):
    from pymbolic.mapper import Mapper, UnsupportedExpressionError
    make, handlers = HIERARCHIES[hname]
    res = ItemResult(item=f"dispatch {hname}", sample={"hierarchy": hname, "handlers": handlers})
    bits = [z3.Bool(f"has_{h}") for h in handlers]

    def harness():
        impl = [h for h, b in zip(handlers, bits) if bool(sym.SymBool(b))]
        log = []
        ns = {}
        for h in impl:
            ns[h] = (lambda hh: lambda self, expr, *a, **kw: log.append((hh, expr, a, kw)) or hh)(h)
        cls = type("UserMapper", (Mapper,), ns)
        obj = make()
        a1, k1 = object(), object()
        try:
            r = cls()(obj, a1, key=k1)
            got = ("handled", r)
        except UnsupportedExpressionError:
            got = ("unsupported", None)
        except NotImplementedError:
            got = ("base:map_variable", None)
        exp = spec_expected_handler(obj, set(impl))
        if exp == "handle_unsupported_expression" and isinstance(obj, p.Variable):
            # the Mapper base class itself provides map_variable (-> map_algebraic_leaf -> NotImplementedError)
            exp = "base:map_variable"
        if twin:
            exp = handlers[-1] if handlers[-1] in impl else exp
        ok = (got == ("unsupported", None)) if exp == "handle_unsupported_expression" else (
            got == ("base:map_variable", None)) if exp == "base:map_variable" else (
            got == ("handled", exp) and len(log) == 1 and log[0][1] is obj and log[0][2] == (a1,) and log[0][3] == {"key": k1})
        return impl, exp, got, ok

    ex = Explorer(pre=[], max_paths=2 ** len(handlers) + 2, timeout_ms=10000)
    paths = list(ex.run(harness))
    for path in paths:
        res.path_assertions += 1
        if path.exc is not None:
            _v(res, f"dispatch {hname} :: raises:{type(path.exc).__name__}", "dispatch-raises",
               f"dispatching {hname} raised {path.exc!r}")
            continue
        impl, exp, got, ok = path.result
        if not ok:
            _v(res, f"dispatch {hname} impl={impl}", "dispatch-wrong-handler",
               f"{make()!r} (MRO {[c.__name__ for c in type(make()).__mro__]}) with a mapper implementing {impl}: "
               f"expected {exp}, observed {got}")
    if not ex.coverage_unsat(paths):
        res.status = "inconclusive"
        res.note = "coverage query not unsat"
    res.paths = len(paths)
    res.coverage_queries = 1
    res.queries = ex.stats.queries
    res.unsat, res.sat, res.solver_s = ex.stats.unsat, ex.stats.sat, ex.stats.solver_s
    return res


def _v(res, sig, kind, detail):
    res.status = "violation"
    res.violations.append(Violation(sig=sig, kind=kind, detail=detail, replay={"detail": detail}))


def check_foreign():
    from pymbolic.mapper import Mapper
    res = ItemResult(item="foreign objects", sample={"family": "numbers, arrays, lists, tuples, other objects"})

    class M(Mapper):
        def map_constant(self, e, *a, **k): return ("map_constant", a, k)
        def map_numpy_array(self, e, *a, **k): return ("map_numpy_array", a, k)
        def map_list(self, e, *a, **k): return ("map_list", a, k)
        def map_tuple(self, e, *a, **k): return ("map_tuple", a, k)
    cases = [(1, "map_constant"), (1.5, "map_constant"), (2j, "map_constant"), (True, "map_constant"),
             (np.int64(3), "map_constant"), (np.float32(1.5), "map_constant"), (np.bool_(True), "map_constant"),
             (np.zeros(2), "map_numpy_array"), (np.empty((2, 2), dtype=object), "map_numpy_array"),
             ([1, 2], "map_list"), ([], "map_list"), ((1, 2), "map_tuple"), ((), "map_tuple"),
             ("a string", ValueError), (None, ValueError), ({"a": 1}, ValueError), ({1, 2}, ValueError),
             (object(), ValueError), (b"bytes", ValueError)]
    # number classes registered by the user at run time (long after pymbolic.mapper was imported)
    import fractions

    class LateNumber:
        def __init__(self, v): self.v = v
        def __repr__(self): return f"LateNumber({self.v})"

    class NeverRegistered:
        pass
    cases.append((LateNumber(3), ValueError))                    # not registered yet: rejected
    for obj, exp in cases:
        res.path_assertions += 1
        a1 = object()
        try:
            got = M()(obj, a1, kw=2)
        except Exception as e:  # noqa: BLE001
            got = type(e)
        ok = got is ValueError if exp is ValueError else got == (exp, (a1,), {"kw": 2})
        if not ok:
            _v(res, f"foreign {type(obj).__name__}", "foreign-dispatch", f"{obj!r}: expected {exp}, observed {got}")
    p.register_constant_class(LateNumber)
    if fractions.Fraction not in p.VALID_CONSTANT_CLASSES:
        p.register_constant_class(fractions.Fraction)
    cases = [(LateNumber(3), "map_constant"), (fractions.Fraction(1, 2), "map_constant"), (NeverRegistered(), ValueError),
             (p.Sum((p.Variable("x"), LateNumber(4))), "tree")]
    for obj, exp in cases:
        res.path_assertions += 1
        a1 = object()
        if exp == "tree":
            from pymbolic.mapper import IdentityMapper
            from pymbolic.mapper.dependency import DependencyMapper
            try:
                r1 = IdentityMapper()(obj)
                r2 = DependencyMapper()(obj)
                if r1 is not obj or r2 != {p.Variable("x")}:
                    _v(res, "foreign late-registered number in a tree", "foreign-dispatch", f"{obj!r}: identity -> {r1!r}, dependencies -> {r2!r}")
            except Exception as e:  # noqa: BLE001
                _v(res, "foreign late-registered number in a tree", "foreign-dispatch",
                   f"{obj!r} holds a number whose class was registered with register_constant_class: stock mappers raise {e!r}")
            continue
        try:
            got = M()(obj, a1, kw=2)
        except Exception as e:  # noqa: BLE001
            got = type(e)
        ok = got is ValueError if exp is ValueError else got == (exp, (a1,), {"kw": 2})
        if not ok:
            _v(res, f"foreign {type(obj).__name__}", "foreign-dispatch", f"{obj!r}: expected {exp}, observed {got}")
    res.paths = 1
    return res


def check_names():
    res = ItemResult(item="derived handler names", sample={"classes": ["A", "ABc", "HTTPNode2D", "My_Node", "NodeA"]})
    for cls in [A, ABc, HTTPNode2D, My_Node, NodeA, NodeB, NodeC, DecOnLeg, p.CallWithKwargs, p.BitwiseXor, p.NaN,
                p._ShiftOperator, p.QuotientBase, p.DotWildcard]:
        res.path_assertions += 1
        exp = spec_snake(cls.__name__)
        if cls is p.NaN:
            exp = "map_nan"
        if cls.mapper_method != exp:
            _v(res, f"name {cls.__name__}", "handler-name", f"{cls.__name__}.mapper_method = {cls.mapper_method!r}, expected {exp!r}")
    for cls, exp in [(ExplicitName, "map_something_else"), (InheritsExplicit, "map_inherits_explicit"),
                     (SubVar, "map_variable"), (LegC, "map_leg_b")]:
        res.path_assertions += 1
        if cls.mapper_method != exp:
            _v(res, f"name {cls.__name__}", "handler-name", f"{cls.__name__}.mapper_method = {cls.mapper_method!r}, expected {exp!r}")
    res.paths = 1
    return res


def check_callback():
    from pymbolic.mapper import CallbackMapper, IdentityMapper
    res = ItemResult(item="callback mapper", sample={"family": "CallbackMapper delegates rec"})
    x, y = p.Variable("x"), p.Variable("y")
    seen = []

    def fn(expr, mapper, *args):
        seen.append(expr)
        if isinstance(expr, p.Variable) and expr.name == "x":
            return y
        return mapper.fallback_mapper(expr, *args) if not isinstance(expr, (p.Variable, int)) else expr
    fb = IdentityMapper()
    cm = CallbackMapper(fn, fb)
    e = p.Sum((x, p.Product((2, x))))
    r = cm(e)
    res.path_assertions += 2
    if r != p.Sum((y, p.Product((2, y)))):
        _v(res, "callback result", "callback", f"CallbackMapper result {r!r}")
    if len([s for s in seen if isinstance(s, p.Variable)]) != 2:
        _v(res, "callback reach", "callback", f"callback saw {seen!r}")
    res.paths = 1
    return res

# }}}


# {{{ traversals on skeleton trees

def _leaves_in_order(e, out=None):
    out = [] if out is None else out
    ch = children_of(e)
    if not ch and isinstance(e, p.Variable):
        out.append(e)
    for c in ch:
        _leaves_in_order(c, out)
    return out


def _all_nodes(e, out=None):
    out = [] if out is None else out
    out.append(e)
    for c in children_of(e):
        _all_nodes(c, out)
    return out


def _canon_trace(tr, decided):
    """nested (node_id, visited_children_sorted, post) structure from a flat event list"""
    pos = [0]

    def parse():
        ev, node, args = tr[pos[0]]
        assert ev == "visit"
        pos[0] += 1
        kids = []
        # a declined visit has no children: following visit events belong to siblings
        while decided.get(id(node), True) and pos[0] < len(tr) and tr[pos[0]][0] == "visit":
            kids.append(parse())
        post = False
        if pos[0] < len(tr) and tr[pos[0]][0] == "post" and tr[pos[0]][1] is node:
            post = True
            pos[0] += 1
        if not decided.get(id(node), True):
            post = None      # whether post_visit runs after a declined visit is not specified
        return (id(node), tuple(sorted(kids)), post)
    out = []
    while pos[0] < len(tr):
        if tr[pos[0]][0] != "visit":
            return ("malformed", tuple((e, id(n)) for e, n, _ in tr))
        out.append(parse())
    return tuple(out)


def _spec_trace(e, decide):
    def rec(n):
        if not decide(n):
            return (id(n), (), None)
        return (id(n), tuple(sorted(rec(c) for c in children_of(n))), True)
    return (rec(e),)


def check_tree(desc, tier, twin=False):
    from pymbolic.mapper import (CachedWalkMapper, Collector, CombineMapper, IdentityMapper,  # noqa: F401
                                 UnsupportedExpressionError, WalkMapper)
    text = skel.show(desc)
    res = ItemResult(item=f"tree {text}", sample={"skeleton": text})
    expr = skel.build(desc)
    ok_refusal = (UnsupportedExpressionError, NotImplementedError)

    def viol(kind, detail):
        _v(res, f"{text} :: {kind}", f"traversal-{kind}", f"{expr!r}: {detail}")

    # ---- identity mapper: equal and identical when nothing changes
    res.path_assertions += 1
    try:
        r = IdentityMapper()(expr)
        if isinstance(expr, (list, np.ndarray)):
            same = (type(r) is type(expr)) and all(a is b for a, b in zip(
                (r if isinstance(r, list) else list(r.flat)), (expr if isinstance(expr, list) else list(expr.flat))))
        else:
            same = r is expr
        if not same:
            viol("identity-not-same", f"IdentityMapper returned {r!r} (a different object) although nothing changed")
    except ok_refusal:
        pass
    except Exception as e:  # noqa: BLE001
        viol("identity-raises", f"IdentityMapper raised {e!r}")

    # ---- identity mapper with one leaf rewritten (symbolic selector, coverage-checked)
    leaves = _leaves_in_order(expr)
    if leaves:
        sel = z3.Int("target_leaf")
        pre = [sel >= 0, sel < len(leaves)]

        def harness():
            from pv.engine import explore
            i = explore.realise(sel)
            target = leaves[i]
            new = p.Variable("NEW")
            args_seen = []

            class Rewriter(IdentityMapper):
                def map_variable(self, e, *a, **kw):
                    args_seen.append((a, kw))
                    return new if e is target else e
            a1 = object()
            try:
                r = Rewriter()(expr, a1, k=a1)
            except ok_refusal:
                return None
            bad = []

            def walk(o, n):
                on_path = any(t is target for t in _all_nodes(o))
                if not on_path:
                    if n is not o and not isinstance(o, (list, np.ndarray)):
                        bad.append(("not-identical", o, n))
                    return
                if o is target:
                    if n is not new:
                        bad.append(("not-rewritten", o, n))
                    return
                if type(o) is not type(n) and not (isinstance(o, (list, np.ndarray))):
                    bad.append(("type-changed", o, n))
                    return
                co, cn = children_of(o), children_of(n)
                if len(co) != len(cn):
                    bad.append(("children-lost", o, n))
                    return
                for a, b in zip(co, cn):
                    walk(a, b)
            walk(expr, r)
            if any(a != ((a1,), {"k": a1}) for a in args_seen):
                bad.append(("args-changed", None, args_seen[:2]))
            return bad

        ex = Explorer(pre=pre, max_paths=len(leaves) + 2, timeout_ms=5000)
        paths = list(ex.run(harness))
        for path in paths:
            res.path_assertions += 1
            if path.exc is not None:
                viol("rewrite-raises", f"rewriting IdentityMapper raised {path.exc!r}")
                continue
            for b in (path.result or [])[:1]:
                viol(f"rewrite-{b[0]}", f"after rewriting one leaf: {b[0]}: {b[1]!r} -> {b[2]!r}")
        if not ex.coverage_unsat(paths):
            res.status = "inconclusive"
            res.note = "leaf selector coverage not unsat"
        _acc(res, ex)
        res.coverage_queries += 1

    # ---- walk mapper: trace with symbolic visit results at designated nodes
    nodes = _all_nodes(expr)
    inner = [n for n in nodes[1:] if children_of(n)]
    designated = [nodes[0]] + inner[:1] + [n for n in nodes[1:] if not children_of(n)][:1]
    vbits = {id(n): z3.Bool(f"visit_{i}") for i, n in enumerate(designated)}
    for cls_name in ("WalkMapper", "CachedWalkMapper"):
        base = {"WalkMapper": WalkMapper, "CachedWalkMapper": CachedWalkMapper}[cls_name]
        if cls_name == "CachedWalkMapper" and isinstance(expr, (list, np.ndarray)):
            continue

        def harness(base=base):
            trace = []
            a1 = object()
            decisions = {}

            def decide(n):
                if id(n) not in decisions:
                    decisions[id(n)] = bool(sym.SymBool(vbits[id(n)])) if id(n) in vbits else True
                return decisions[id(n)]

            class W(base):
                def visit(self, e, *a, **kw):
                    trace.append(("visit", e, (a, kw)))
                    return decide(e)

                def post_visit(self, e, *a, **kw):
                    trace.append(("post", e, (a, kw)))
            try:
                if base is CachedWalkMapper:
                    W()(expr)
                else:
                    W()(expr, a1, k=a1)
            except ok_refusal:
                return None
            exp = _spec_trace(expr, decide)
            if twin:
                exp = _spec_trace(expr, lambda n: True)
            got = _canon_trace(trace, decisions)
            args_ok = base is CachedWalkMapper or all(t[2] == ((a1,), {"k": a1}) for t in trace)
            return got == exp, args_ok, [(ev, repr(n)[:40]) for ev, n, _ in trace], dict(decisions)

        if base is CachedWalkMapper and len({id(n) for n in nodes}) != len(nodes):
            continue
        # cached walker visits equal subtrees once: only compare on trees without equal-but-distinct nodes
        if base is CachedWalkMapper and any(a is not b and type(a) is type(b) and _safe_eq(a, b)
                                            for i, a in enumerate(nodes) for b in nodes[i + 1:]):
            continue
        ex = Explorer(pre=[], max_paths=2 ** len(designated) + 2, timeout_ms=5000)
        paths = list(ex.run(harness))
        for path in paths:
            res.path_assertions += 1
            if path.exc is not None:
                viol(f"{cls_name}-raises", f"{cls_name} raised {path.exc!r}")
                continue
            if path.result is None:
                continue
            ok, args_ok, tr, dec = path.result
            if not ok:
                viol(f"{cls_name}-trace", f"visit decisions {sorted(dec.values())}: trace {tr} is not "
                                          "visit / children / post_visit over every child")
                break
            if not args_ok:
                viol(f"{cls_name}-args", f"extra arguments did not reach every visit/post_visit: {tr}")
                break
        _acc(res, ex)
        if twin:
            return res

    # ---- combine / collector fold contains every child's result; extra args reach every leaf
    class LeafCollector(Collector):
        def __init__(self):
            self.args_seen = []

        def map_variable(self, e, *a, **kw):
            self.args_seen.append((a, kw))
            return {e.name}

        def map_constant(self, e, *a, **kw):
            self.args_seen.append((a, kw))
            return {("const", repr(e))}
        map_nan = map_constant
    res.path_assertions += 1
    a1 = object()
    lc = LeafCollector()
    try:
        got = lc(expr, a1, k=a1)
        exp = set()
        for n in nodes:
            if isinstance(n, p.Variable):
                exp.add(n.name)
            elif not isinstance(n, (p.Expression, tuple, list, np.ndarray)) or isinstance(n, p.NaN):
                exp.add(("const", repr(n)))
        if got != exp:
            viol("collector-misses", f"Collector fold {sorted(map(str, got))} != every leaf {sorted(map(str, exp))}")
        if any(a != ((a1,), {"k": a1}) for a in lc.args_seen):
            viol("collector-args", "extra arguments did not reach every leaf handler")
    except ok_refusal:
        pass
    except Exception as e:  # noqa: BLE001
        viol("collector-raises", f"Collector raised {e!r}")
    return res


def _acc(res, ex):
    st = ex.stats
    res.paths += st.paths
    res.queries += st.queries
    res.unsat += st.unsat
    res.sat += st.sat
    res.unknown += st.unknown
    res.solver_s += st.solver_s


def _safe_eq(a, b):
    try:
        return bool(a == b)
    except Exception:  # noqa: BLE001
        return False


def check_extranodes():
    """node types outside the skeleton alphabet: each stock traversal handles them or raises"""
    from pymbolic.mapper import Collector, IdentityMapper, UnsupportedExpressionError, WalkMapper
    res = ItemResult(item="extra node types", sample={"family": "wildcards, function symbols, user nodes, NaN"})
    x = p.Variable("x")
    extra = [p.Wildcard(), p.DotWildcard("w"), p.StarWildcard("s"), p.FunctionSymbol(), p.NaN(), NodeA(x), LegA(x),
             p.Sum((NodeA(x), x)), p.Product((x, LegA(x))), p.Leaf(), p.AlgebraicLeaf()]
    for e in extra:
        for cls in (IdentityMapper, WalkMapper, Collector):
            res.path_assertions += 1
            try:
                r = cls()(e)
            except (UnsupportedExpressionError, NotImplementedError):
                continue
            except Exception as ex:  # noqa: BLE001
                _v(res, f"extranode {type(e).__name__} {cls.__name__}", "unsupported-not-reported",
                   f"{cls.__name__}()({e!r}) raised {ex!r} instead of the unsupported-expression error")
                continue
            if cls is IdentityMapper and not (r is e or r == e):
                _v(res, f"extranode {type(e).__name__} identity", "identity-not-equal", f"IdentityMapper()({e!r}) = {r!r}")
            if any(isinstance(n, (NodeA, LegA)) for n in _all_nodes(e) if isinstance(n, p.Expression)):
                _v(res, f"extranode {type(e).__name__} {cls.__name__} silent", "unsupported-silently-skipped",
                   f"{cls.__name__}()({e!r}) returned {r!r} although it has no handler for the user node type")
    res.paths = 1
    return res

# }}}


def check_item(item, tier):
    k = item[0]
    if k == "dispatch":
        return check_dispatch(item[1])
    if k == "foreign":
        return check_foreign()
    if k == "names":
        return check_names()
    if k == "callback":
        return check_callback()
    if k == "tree":
        return check_tree(item[1], tier)
    if k == "extranodes":
        return check_extranodes()
    if k == "twin_dispatch":
        return check_dispatch("dec_chain", twin=True)
    if k == "twin_walk":
        return check_tree(("sum2", ("v", "x1", "num"), ("prod2", ("v", "x2", "num"), ("v", "x3", "num"))), tier, twin=True)
    raise ValueError(item)
