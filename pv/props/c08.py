"""C08 — substitution commutes with evaluation.

For every skeleton tree and substitution map: the substituted tree (built by the
real substitute(), plain and cached mapper) is evaluated on z3 proxies; the oracle
evaluates the *original* tree in the environment where every replaced name is
bound to the value of its replacement (whole-node keys: that node denotes the
replacement's value); z3 proves equality for every environment."""
from __future__ import annotations

import dataclasses

import pymbolic.primitives as p
from pv import harness as H
from pv import refsem, skel
from pv.common import ItemResult, Violation
from pv.engine import sym
from pv.engine.explore import Explorer, HarnessError, Query

BOUNDS = {"quick": {"trees": "depth <= 2 over all node kinds", "maps": "12 map shapes (name/Variable/kwargs keys, swap, chained, "
                    "subscript and look-up keys, unused key)", "max_paths": 256, "solver_timeout_ms": 10000},
          "thorough": {"trees": "depth <= 2 + depth 3 over 10 kinds", "max_paths": 1024, "solver_timeout_ms": 30000}}
ASSUMPTIONS = ["the uncached evaluator / refsem give the meaning of trees (C02)", "floats are exact reals",
               "arrays, records and callables in the environment are uninterpreted"]
RULE = "one item per (skeleton, map shape); non-trivial = map has a key occurring in the tree or the identity clause was evaluated"

MAPS = ["const", "const_varkey", "const_kwargs", "othervar", "incr", "swap", "chain", "subscript_key", "subscript_and_index",
        "lookup_key", "unused", "all_leaves", "index_then_subscript_key", "nonvar_names", "mixed_kwargs", "subscript_key_zero", "lookup_key_zero", "zero_values"]
D3 = ["sum2", "prod2", "quot", "pow", "if", "lor2", "cmp_lt", "call1", "sub1", "cse"]


def items(tier):
    out, seen = [], set()
    descs = list(skel.depth1()) + list(skel.depth2())
    if tier == "thorough":
        descs += list(skel.depth3(D3))
    for d in descs:
        key = skel.show(d)
        if key in seen:
            continue
        seen.add(key)
        kinds = skel.kinds_in(d)
        for m in MAPS:
            if m in ("subscript_key", "subscript_key_zero", "subscript_and_index", "index_then_subscript_key") and "sub1" not in kinds:
                continue
            if m in ("lookup_key", "lookup_key_zero") and "lookup" not in kinds:
                continue
            if m == "zero_values" and len(kinds) > 1:
                continue
            if m == "nonvar_names" and not ({"lookup", "callkw", "callkw0", "cse_pfx"} & set(kinds)):
                continue
            out.append(("skel", d, m))
    v = lambda n, t="num": ("v", n, t)  # noqa: E731
    for d in [("sum2", ("sub1", v("a1", "arr"), v("x2")), v("x2")),
              ("sum2", ("sub1", v("a1", "arr"), v("x2")), ("sub1", v("a1", "arr"), v("x3"))),
              ("callkw", v("f1", "fn"), v("x2"), ("sum2", v("x3"), ("c", 1)), v("x4")),
              ("callkw0", v("f1", "fn"), v("x2")),
              ("sum2", ("lookup", v("o1", "rec")), v("x2")),
              ("sub1", v("a1", "arr"), ("sub1", v("a1", "arr"), v("x2"))),
              ("sum2", v("x1"), v("x1")), ("prod2", ("sum2", v("x1"), v("x2")), ("sum2", v("x1"), v("x2"))),
              # constants whose hashes collide in CPython (hash(-1) == hash(-2)) in same-shaped subtrees
              ("prod2", ("sum2", v("x1"), ("c", -1)), ("sum2", v("x1"), ("c", -2))),
              ("sum2", ("pow", v("x1"), ("c", -1)), ("prod2", ("c", 3), ("pow", v("x1"), ("c", -2)))),
              ("sum2", ("prod2", ("sum2", v("x1"), ("c", -1)), ("sum2", v("x1"), ("c", -2))), v("x2")),
              ("call2", v("f1", "fn"), ("sum2", v("x2"), ("c", -1)), ("sum2", v("x2"), ("c", -2))),
              # nodes of a user subclass of Variable (evaluated by name, replaced through name keys like any variable)
              ("sum2", v("x1", "tnum"), ("prod2", ("c", 2), v("x2"))), ("call1", v("f1", "fn"), v("x2", "tnum")),
              ("sum3", v("x1", "tnum"), v("x1"), v("x2", "tnum")), ("sub1", v("a1", "arr"), ("sum2", v("x2", "tnum"), v("x3")))]:
        for m in MAPS:
            out.append(("skel", d, m))
    out.append(("reuse",))
    return out


def twins(tier):
    v = lambda n, t="num": ("v", n, t)  # noqa: E731
    return [("twin", ("sum2", v("x1"), ("prod2", v("x2"), v("x1"))), "chain")]


def find_nodes(e, cls):
    out = []

    def walk(x):
        if isinstance(x, cls):
            out.append(x)
        for c in children_of(x):
            walk(c)
    walk(e)
    return out


def children_of(x):
    import numpy as np
    if isinstance(x, (tuple, list)):
        return list(x)
    if isinstance(x, np.ndarray):
        return list(x.flat)
    if not isinstance(x, p.Expression):
        return []
    out = []
    for f in dataclasses.fields(x):
        v = getattr(x, f.name)
        if isinstance(v, p.Expression):
            out.append(v)
        elif isinstance(v, tuple):
            out.extend(v)
        elif hasattr(v, "items"):
            out.extend(v.values())
    return out


def build_map(desc, expr, shape):
    """-> (mapping for substitute(), kwargs, name_repl {name: expr}, node_repl [(node, expr)])  or None"""
    nums = [n for n, t in skel.leaves(desc) if t in ("num", "tnum", "exp", "shift")]
    V = p.Variable
    if shape in ("const", "const_varkey", "const_kwargs", "incr"):
        if not nums:
            return None
        k = nums[0]
        val = 7 if shape != "incr" else V(k) + 1
        if shape == "const_varkey":
            # a node key replaces the nodes equal to it (a user subclass instance of the same name is another node)
            return {V(k): val}, {}, {}, [(V(k), val)]
        if shape == "const_kwargs":
            return {}, {k: val}, {k: val}, []
        return {k: val}, {}, {k: val}, []
    if shape in ("othervar", "swap", "chain"):
        if len(nums) < 2:
            return None
        a, b = nums[0], nums[1]
        if shape == "othervar":
            m = {a: V(b)}
        elif shape == "swap":
            m = {a: V(b), b: V(a)}
        else:
            m = {a: V(b) * 2, b: 5}
        return dict(m), {}, dict(m), []
    if shape == "all_leaves":
        if not nums:
            return None
        m = {n: V(n) + i for i, n in enumerate(nums, 1)}
        return dict(m), {}, dict(m), []
    if shape == "mixed_kwargs":
        # a mapping AND keyword arguments in one call: still one simultaneous substitution
        if len(nums) < 2:
            return None
        a, b = nums[0], nums[1]
        return {a: V(b) + 1}, {b: V(a) * 3}, {a: V(b) + 1, b: V(a) * 3}, []
    if shape == "unused":
        return {"unused_name": 1, V("other_unused"): 2}, {}, {}, []
    if shape == "nonvar_names":
        # strings that occur in the tree but do not name a variable: attribute, keyword and prefix names
        return {"fld": 77, "k": 78, "j": 79, "pfx": 80}, {}, {}, []
    if shape in ("subscript_key", "subscript_key_zero", "subscript_and_index", "index_then_subscript_key"):
        subs = find_nodes(expr, p.Subscript)
        if not subs:
            return None
        node = subs[0]
        if shape == "subscript_key":
            return {node: 9}, {}, {}, [(node, 9)]
        if shape == "subscript_key_zero":      # replacement values that are "false": 0, and a product with a zero factor
            return {node: 0}, {}, {}, [(node, 0)]
        idx_vars = [x for x in find_nodes(node.index, p.Variable)]
        if not idx_vars:
            return None
        iv = idx_vars[0]
        if shape == "subscript_and_index":
            m = {node: V("fresh_q"), iv.name: V("fresh_j")}
            return m, {}, {iv.name: V("fresh_j")}, [(node, V("fresh_q"))]
        # a key that only matches after the index has been replaced must NOT fire
        replaced = p.Subscript(node.aggregate, V("fresh_j")) if node.index == iv else None
        if replaced is None:
            return None
        m = {iv.name: V("fresh_j"), replaced: 7}
        return m, {}, {iv.name: V("fresh_j")}, [(replaced, 7)]
    if shape in ("lookup_key", "lookup_key_zero"):
        ls = find_nodes(expr, p.Lookup)
        if not ls:
            return None
        val = 3 if shape == "lookup_key" else 0.0
        return {ls[0]: val}, {}, {}, [(ls[0], val)]
    if shape == "zero_values":
        # variables replaced by zero-like values (0, False, 0*x)
        if len(nums) < 1:
            return None
        m = {nums[0]: 0}
        if len(nums) > 1:
            m[nums[1]] = p.Product((0, V(nums[0])))
        return dict(m), {}, dict(m), []
    raise ValueError(shape)


def occurs(t, mapping_keys):
    """does any key occur in subtree t (independent scan)"""
    def walk(x):
        for k in mapping_keys:
            if isinstance(k, str):
                if isinstance(x, p.Variable) and x.name == k:
                    return True
            elif isinstance(x, p.Expression) and type(x) is type(k) and x == k:
                return True
        return any(walk(c) for c in children_of(x))
    return walk(t)


def identity_violations(orig, result, keys, cached=False):
    """subtrees containing nothing to replace must come back as the identical objects.
    The memoizing mapper shares results between equal subtrees, so for it the returned object may be
    another (equal) occurrence from the same input tree."""
    bad = []
    all_nodes = []
    if cached:
        def collect(x):
            if isinstance(x, p.Expression):
                all_nodes.append(x)
            for c in children_of(x):
                collect(c)
        collect(orig)

    def walk(o, r):
        if isinstance(o, p.Expression) and not occurs(o, keys):
            if r is not o and not (cached and type(r) is type(o) and r == o and any(r is n for n in all_nodes)):
                bad.append((o, r))
            return
        co, cr = children_of(o), children_of(r)
        if type(o) is type(r) and len(co) == len(cr):
            for a, b in zip(co, cr):
                walk(a, b)
    walk(orig, result)
    return bad


def check_reuse():
    """one memoizing substitution mapper used for several substitutions, also on containers that cannot be hashed
    and that the caller updates in place between the calls: every answer equals the plain mapper's"""
    import numpy as np
    from pymbolic.mapper.substitutor import CachedSubstitutionMapper, SubstitutionMapper, make_subst_func
    res = ItemResult(item="reused memoizing mapper", sample={"family": "call histories on one CachedSubstitutionMapper"})
    x, y, z = (p.Variable(n) for n in "xyz")
    fn = make_subst_func({"x": p.Sum((y, 1)), "y": z})

    def norm(v):
        if isinstance(v, np.ndarray):
            return ("array", tuple(norm(c) for c in v.flat))
        if isinstance(v, (list, tuple)):
            return (type(v).__name__, tuple(norm(c) for c in v))
        return repr(v)
    cached = CachedSubstitutionMapper(fn)
    lst = [p.Sum((x, 1)), y]
    arr = np.empty(2, dtype=object)
    arr[0], arr[1] = p.Product((x, y)), x
    steps = [("list", lambda: lst), ("expr", lambda: p.Product((x, y))), ("list again", lambda: lst),
             ("list updated in place", lambda: (lst.__setitem__(0, p.Product((2, x))), lst)[1]),
             ("array", lambda: arr), ("array updated in place", lambda: (arr.__setitem__(1, p.Sum((y, z))), arr)[1]),
             ("fresh short-lived list", lambda: [p.Power(x, 2), z]), ("another short-lived list", lambda: [p.Power(y, 3), x]),
             ("call holding a list", lambda: p.Call(p.Variable("f"), ([x, y],))), ("expr again", lambda: p.Product((x, y)))]
    for label, mk in steps:
        res.path_assertions += 1
        e = mk()
        try:
            got, want = norm(cached(e)), norm(SubstitutionMapper(fn)(e))
        except Exception as ex_:  # noqa: BLE001
            got, want = repr(ex_), "no exception"
            try:
                want = norm(SubstitutionMapper(fn)(e))
            except Exception as ex2:  # noqa: BLE001
                want = repr(ex2)
                if type(ex2).__name__ in got:
                    continue
        if got != want:
            res.status = "violation"
            res.violations.append(Violation(sig=f"reuse step {label}", kind="subst-reuse",
                                            detail=f"step '{label}' on one reused CachedSubstitutionMapper gives {got!r:.200}; "
                                                   f"the plain mapper gives {want!r:.200}", replay={"step": label}))
    res.paths = 1
    return res


def check_item(item, tier):
    if item[0] == "reuse":
        return check_reuse()
    twin = item[0] == "twin"
    _, desc, shape = item
    from pymbolic import substitute
    from pymbolic.mapper.evaluator import EvaluationMapper
    from pymbolic.mapper.substitutor import SubstitutionMapper, make_subst_func
    fam = H.family_for(desc)
    sym.set_family(fam)
    text = f"{skel.show(desc)} map={shape}"
    res = ItemResult(item=text, sample={"skeleton": skel.show(desc), "map": shape})
    expr = skel.build(desc)
    bm = build_map(desc, expr, shape)
    if bm is None:
        res.nontrivial = False
        res.status = "skipped"
        return res
    mapping, kwargs, name_repl, node_repl = bm
    res.sample["mapping"] = repr({**mapping, **kwargs})
    res.paths = 1

    def viol(kind, detail, replay=None):
        res.status = "violation"
        res.violations.append(Violation(sig=f"{text} :: {kind}", kind=f"subst-{kind}",
                                        detail=f"substitute({expr!r}, {mapping!r}, **{kwargs!r}): {detail}",
                                        replay=replay or {"expr": repr(expr), "mapping": repr(mapping)}))
    try:
        r_cached = substitute(expr, mapping, **kwargs)
        r_plain = substitute(expr, mapping, mapper_cls=SubstitutionMapper, **kwargs)
    except Exception as e:  # noqa: BLE001
        if isinstance(expr, (list,)) or not isinstance(expr, (p.Expression, tuple)) and not hasattr(expr, "shape"):
            res.status = "skipped"
            return res
        viol("raises", f"raised {e!r}")
        return res
    from pv.props.c06 import strict_equal
    import numpy as np
    res.path_assertions += 2
    if not isinstance(expr, (list, np.ndarray)):
        if not strict_equal(r_cached, r_plain):
            viol("cached-vs-plain", f"cached mapper gives {r_cached!r}, plain mapper {r_plain!r}")
        keys = list(mapping) + list(kwargs)
        nodes = []

        def collect(x):
            if isinstance(x, p.Expression):
                nodes.append(x)
            for c in children_of(x):
                collect(c)
        collect(expr)
        has_equal_twins = any(a is not b and type(a) is type(b) and a == b
                              for i, a in enumerate(nodes) for b in nodes[i + 1:])
        for which, r in (("plain", r_plain), ("cached", r_cached)):
            if which == "cached" and has_equal_twins:
                continue   # memoization legitimately shares results between equal-but-distinct subtrees
            bad = identity_violations(expr, r, keys, cached=(which == "cached"))
            if bad:
                viol(f"identity-{which}", f"subtree {bad[0][0]!r} contains nothing to replace but came back as a "
                                          f"different object ({bad[0][1]!r})")
    # value clause
    env, pre = H.make_env(desc, fam)
    for nm in ("fresh_j", "fresh_q"):
        v, cs = sym.var(nm, fam, *H.NUM_RANGE[fam])
        env[nm] = v
        pre += cs

    def oracle(envx):
        env2 = dict(envx)
        for k, rep in name_repl.items():
            env2[k] = refsem.den(rep, envx)
        if twin:     # deliberately wrong: sequential instead of simultaneous substitution
            for k, rep in name_repl.items():
                env2[k] = refsem.den(rep, env2)
        ov = [(node, refsem.den(rep, envx)) for node, rep in node_repl]
        return refsem.den(expr, env2, overrides=ov)

    def harness():
        o = H.outcome(lambda: oracle(env))
        i1 = H.outcome(lambda: EvaluationMapper(env)(r_plain))
        i2 = H.outcome(lambda: EvaluationMapper(env)(r_cached))
        return o, i1, i2

    ex = Explorer(pre=pre, max_paths=BOUNDS[tier]["max_paths"], timeout_ms=BOUNDS[tier]["solver_timeout_ms"])
    q = Query(timeout_ms=BOUNDS[tier]["solver_timeout_ms"])
    cmp_ = H.Cmp(q, fam, lenient=True)      # where evaluation in the extended environment is undefined nothing is required
    try:
        for path in ex.run(harness):
            if path.exc is not None:
                if isinstance(path.exc, sym.Unsupported):
                    res.note = f"outside proxy model: {path.exc}"
                    break
                raise HarnessError(f"harness raised {path.exc!r} on {text}")
            o, i1, i2 = path.result
            done = False
            for which, i in (("plain", i1), ("cached", i2)):
                verdict, model, why = cmp_(path.pc, i, o)
                res.path_assertions += 1
                if verdict in ("ok", "skip"):
                    continue
                if verdict == "unknown":
                    res.status = "inconclusive"
                    res.note = why
                    continue
                if model is None:
                    model = H.path_model([], path.pc)
                tg = skel.tags(desc)
                cenv = H.concretise_env(env, model, exact=(fam != "bv" and ("div" in tg or "pow" in tg)))
                r = r_plain if which == "plain" else r_cached
                differs, txt = H.replay_differs(lambda: EvaluationMapper(cenv)(r), lambda: oracle(cenv), lenient=True)
                if not differs:
                    raise HarnessError(f"counterexample did not reproduce: {text} env {H.env_text(cenv)}: {why} / {txt}")
                viol(f"value-{which}", f"result {r!r} with {H.env_text(cenv)}: {txt}",
                     {"expr": repr(expr), "mapping": repr(mapping), "env": H.env_text(cenv), "result": txt})
                done = True
                break
            if done:
                break
    except sym.Unsupported as e:
        res.note = f"outside proxy model: {e}"
    if not ex.complete and res.status == "ok":
        res.status = "inconclusive"
        res.note = "; ".join(ex.inconclusive_reasons[:2])
    return H.finish(res, [ex.stats], q)
