"""C13 — generated Python code computes what the evaluator computes.

Per skeleton (every generated program): the code produced by compile(),
to_python_ast(), to_evaluatable_python_function() and the tree re-imported by
ASTToPymbolic are run on z3 proxies; z3 proves per path that each returns what the
evaluator returns for every argument assignment (translation validation with the
solver as equivalence checker).  Argument order and the pickle round trip are path
assertions."""
from __future__ import annotations

import ast
import itertools
import pickle

import pymbolic.primitives as p
from pv import harness as H
from pv import skel
from pv.common import ItemResult, Violation
from pv.engine import sym
from pv.engine.explore import Explorer, HarnessError, Query

BOUNDS = {"quick": {"trees": "Python-expressible fragment: every kind at depth 1, every (parent, slot, child) at depth 2, "
                             "constants in every slot; logical/conditional slots hold boolean-valued children",
                    "max_paths": 256, "solver_timeout_ms": 10000},
          "thorough": {"trees": "quick + depth 3 over 9 kinds", "max_paths": 1024, "solver_timeout_ms": 30000}}
ASSUMPTIONS = ["the evaluator is the reference (C02)", "floats are exact reals", "operands of logical nodes are boolean-valued "
               "(the evaluator returns the truth value, Python's and/or return an operand)"]
RULE = "one item per skeleton; four translation paths each; non-trivial = >= 1 path produced code that was compared"

FRAGMENT = (skel.ARITH + skel.BITS + skel.LOGIC + skel.CMPS + ["if", "min2", "max2", "min3", "max3", "neg"]
            + ["call0", "call1", "call2", "callkw", "callkw0", "sub1", "sub2", "lookup", "tuple2", "list2"])
BOOLISH = set(skel.LOGIC + skel.CMPS)
D3 = ["sum2", "prod2", "quot", "floordiv", "pow", "neg", "if", "cmp_lt", "lor2"]


def well_typed(d):
    """children in boolean slots must be boolean-valued"""
    if skel.is_leaf(d):
        return True
    k = skel.KINDS[d[0]]
    for st, c in zip(k.slots, d[1:]):
        if st == "bool" and not skel.is_leaf(c) and c[0] not in BOOLISH:
            return False
        if st == "bool" and c[0] == "c" and not isinstance(c[1], bool):
            return False
        if not well_typed(c):
            return False
    return True


def items(tier):
    out, seen = [], set()
    descs = list(skel.depth1(FRAGMENT)) + list(skel.depth2(FRAGMENT, [k for k in FRAGMENT if k not in ("tuple2", "list2")]))
    descs += list(skel.with_consts(FRAGMENT))
    if tier == "thorough":
        descs += list(skel.depth3(D3))
    v = lambda n, t="num": ("v", n, t)  # noqa: E731
    descs += [
        ("pow", ("pow", v("x1"), v("e2", "exp")), v("e3", "exp")), ("pow", ("c", -2), v("e1", "exp")),
        ("pow", ("neg", v("x1")), ("c", 2)), ("cmp_lt", ("cmp_lt", v("x1"), v("x2")), v("x3")),
        ("cmp_eq", v("x1"), ("cmp_lt", v("x2"), v("x3"))),
        ("if", v("b1", "bool"), ("if", v("b2", "bool"), v("x3"), v("x4")), v("x5")),
        ("if", v("b1", "bool"), v("x2"), ("if", v("b3", "bool"), v("x4"), v("x5"))),
        ("if", ("if", v("b1", "bool"), v("b2", "bool"), v("b3", "bool")), v("x4"), v("x5")),
        ("rshift", v("x1"), v("s2", "shift")), ("bnot", ("bnot", v("x1"))),
        ("sum2", ("prod2", ("c", -1), v("x1")), v("x2")), ("quot", ("c", 1), ("c", 3)),
        # negation of numbers (not x is defined for every number) and double negation: not not x is bool(x), not x
        ("lnot", v("x1")), ("lnot", ("lnot", v("x1"))), ("sum2", ("c", 1), ("lnot", ("lnot", v("x1")))),
        ("floordiv", v("x2"), ("lnot", ("lnot", v("x1")))), ("if", v("b1", "bool"), ("lnot", ("lnot", v("x2"))), v("x3")),
        ("prod2", ("lnot", v("x1")), v("x2")), ("lnot", ("lnot", ("lnot", v("x1")))), ("tuple2", ("lnot", ("lnot", v("x1"))), v("x1")),
    ]
    for d in descs:
        if not well_typed(d):
            continue
        k = skel.show(d)
        if k not in seen:
            seen.add(k)
            out.append(("skel", d))
    out += [("argorder", n) for n in range(0, 12)]
    return out


def twins(tier):
    return [("twin", ("floordiv", ("v", "x1", "num"), ("v", "x2", "num")))]


def _names(desc):
    return [n for n, t in skel.leaves(desc)]


def translations(expr, names):
    """-> list of (path name, callable(env) -> value) or (path name, exception)"""
    import pymbolic
    from pymbolic.interop.ast import ASTToPymbolic, to_evaluatable_python_function, to_python_ast
    from pymbolic.mapper.evaluator import EvaluationMapper
    out = []
    # 1. compile: listed variables = all names in sorted order (argument order has its own items)
    try:
        ce = pymbolic.compile(expr, sorted(names))
        out.append(("compile", lambda env, ce=ce: ce(*[env[n] for n in sorted(names)])))
        ce2 = pickle.loads(pickle.dumps(ce))
        out.append(("compile+pickle", lambda env, ce2=ce2: ce2(*[env[n] for n in sorted(names)])))
    except Exception as e:  # noqa: BLE001
        out.append(("compile", e))
    # 2. to_python_ast
    try:
        tree = to_python_ast(expr)
        for n in ast.walk(tree):
            if isinstance(n, (ast.Name, ast.Attribute, ast.Subscript, ast.List, ast.Tuple)) and not hasattr(n, "ctx"):
                n.ctx = ast.Load()
        code = compile(ast.fix_missing_locations(ast.Expression(body=tree)), "<c13-ast>", "eval")
        out.append(("to_python_ast", lambda env, code=code: eval(code, {"min": min, "max": max}, dict(env))))
        # 4. import the AST back
        try:
            back = ASTToPymbolic()(tree)
            out.append(("ast-roundtrip", lambda env, back=back: EvaluationMapper(env)(back)))
        except Exception as e:  # noqa: BLE001
            out.append(("ast-roundtrip", e))
    except Exception as e:  # noqa: BLE001
        out.append(("to_python_ast", e))
    # 3. function source
    try:
        src = to_evaluatable_python_function(expr, "generated_fn")
        ns = {}
        exec(src, {"min": min, "max": max}, ns)
        fn = ns["generated_fn"]
        out.append(("function-source", lambda env, fn=fn: fn(**{n: env[n] for n in names})))
    except Exception as e:  # noqa: BLE001
        out.append(("function-source", e))
    return out


def check_skeleton(desc, tier, twin=False):
    from pymbolic.mapper.evaluator import EvaluationMapper
    fam = H.family_for(desc)
    sym.set_family(fam)
    text = skel.show(desc)
    res = ItemResult(item=text, sample={"skeleton": text})
    expr = skel.build(desc)
    names = _names(desc)
    trs = translations(expr, names)
    orc_expr = p.FloorDiv(expr.denominator, expr.numerator) if twin else expr

    def viol(path_name, kind, detail):
        res.status = "violation"
        res.violations.append(Violation(sig=f"{text} :: {path_name} :: {kind}", kind=f"pygen-{path_name}-{kind}",
                                        detail=f"{expr!r} via {path_name}: {detail}",
                                        replay={"skeleton": text, "path": path_name}))
    live = []
    for name, t in trs:
        if isinstance(t, Exception):
            if isinstance(t, NotImplementedError):
                continue                     # clean refusal of an unsupported node type
            viol(name, "raises", f"translation raised {t!r}")
        else:
            live.append((name, t))
    if not live:
        res.nontrivial = False
        return res
    env, pre = H.make_env(desc, fam)

    def harness():
        o = H.outcome(lambda: EvaluationMapper(env)(orc_expr))
        outs = [(n, H.outcome(lambda t=t: t(env))) for n, t in live]
        return o, outs

    ex = Explorer(pre=pre, max_paths=BOUNDS[tier]["max_paths"], timeout_ms=BOUNDS[tier]["solver_timeout_ms"])
    q = Query(timeout_ms=BOUNDS[tier]["solver_timeout_ms"])
    cmp_ = H.Cmp(q, fam)
    done = set()
    try:
        for path in ex.run(harness):
            if path.exc is not None:
                if isinstance(path.exc, sym.Unsupported):
                    res.note = f"outside proxy model: {path.exc}"
                    break
                raise HarnessError(f"harness raised {path.exc!r} on {text}")
            o, outs = path.result
            if o[0] == "exc" and not isinstance(o[1], (ZeroDivisionError, ValueError)):
                continue
            for (name, i), (_, t) in zip(outs, live):
                if name in done:
                    continue
                verdict, model, why = cmp_(path.pc, i, o)
                res.path_assertions += 1
                if verdict in ("ok", "skip"):
                    continue
                if verdict == "unknown":
                    res.status = "inconclusive"
                    res.note = why
                    continue
                if model is None:
                    model = H.path_model([], path.pc)
                tg = skel.tags(desc)
                cenv = H.concretise_env(env, model, exact=(fam != "bv" and ("div" in tg or "pow" in tg)))
                differs, txt = H.replay_differs(lambda: t(cenv), lambda: EvaluationMapper(cenv)(orc_expr))
                if not differs:
                    if "pow(" in why:
                        res.status = "inconclusive"
                        res.note = "counterexample depends on uninterpreted pow()"
                        continue
                    raise HarnessError(f"counterexample did not reproduce: {text} {name} {H.env_text(cenv)}: {why} / {txt}")
                done.add(name)
                viol(name, "exception" if "raises" in txt else "value", f"with {H.env_text(cenv)}: {txt}")
    except sym.Unsupported as e:
        res.note = f"outside proxy model: {e}"
    # witness with exact rational arguments (the proxies identify 0.25 with 1/4; Python's numbers do not): the generated
    # code must return what the evaluator returns, not a float approximation of it
    renv = _rational_env(desc)
    if renv is not None and res.status == "ok" and not twin:
        orc = H.outcome(lambda: EvaluationMapper(renv)(orc_expr))
        if orc[0] == "val":
            for name, t in live:
                res.path_assertions += 1
                differs, txt = H.replay_differs(lambda t=t: t(renv), lambda: orc[1])
                if differs:
                    viol(name, "rational-arguments", f"with exact rational arguments {H.env_text(renv)}: {txt}")
    if not ex.complete and res.status == "ok":
        res.status = "inconclusive"
        res.note = "; ".join(ex.inconclusive_reasons[:2])
    return H.finish(res, [ex.stats], q)


class _RatArr:
    def __getitem__(self, idx):
        from fractions import Fraction
        return (sum(idx) if isinstance(idx, tuple) else idx) + Fraction(1, 11)


def _rational_env(desc):
    """a fixed environment of exact rationals (None where the skeleton needs integers)"""
    import types
    from fractions import Fraction
    tg = skel.tags(desc)
    if "bit" in tg or any(k in skel.kinds_in(desc) for k in ("floordiv", "rem")):
        return None

    def has_float(d):
        if d[0] == "c":
            return isinstance(d[1], float)
        if d[0] == "v":
            return False
        return any(has_float(c) for c in d[1:])
    if has_float(desc):
        return None      # with float constants the order of additions shows in the last digit: not what is compared here
    env = {}
    for i, (name, typ) in enumerate(skel.leaves(desc)):
        if typ in ("num", "tnum"):
            env[name] = Fraction(2 * i + 1, 3)
        elif typ == "exp":
            env[name] = 2
        elif typ == "bool":
            env[name] = i % 2 == 0
        elif typ == "fn":
            env[name] = lambda *a, **k: sum(a, Fraction(1, 7)) + sum(k.values())
        elif typ in ("arr", "arr2"):
            env[name] = _RatArr()
        elif typ == "rec":
            env[name] = types.SimpleNamespace(fld=Fraction(5, 7))
        else:
            return None
    return env


def check_argorder(n_vars):
    """listed variables first (in the order given), then the remaining free variables in name order.
    ONE expression is compiled again and again in this process with different listings (a history), its
    variables include names of Python builtins, listings may name variables the expression does not use."""
    import pymbolic
    res = ItemResult(item=f"argorder variables={n_vars}", sample={"variables": n_vars})
    # x10 / x2 / x1: lexicographic name order differs from "natural" numeric order
    pool = ["q", "a", "zeta", "max", "B", "id", "b2", "sum", "x10", "x2", "x1"][:n_vars]
    coeff = {n: (i + 2) * 1000 + 7 for i, n in enumerate(pool)}
    expr = p.Sum(tuple(p.Product((coeff[n], p.Variable(n))) for n in pool)) if len(pool) > 1 else (
        p.Product((coeff[pool[0]], p.Variable(pool[0]))) if pool else 5)
    listings = [()]
    cand = pool[:4] + ["unused_w"]
    for k in (1, 2, 3):
        listings += list(itertools.permutations(cand, k))
    for rnd in (0, 1):      # second round: every listing again after all others were compiled
        for listed in listings:
            for as_var in (False, True):
                res.path_assertions += 1
                lv = [p.Variable(n) if as_var else n for n in listed]
                # the listing may be any iterable: a list, a tuple, a one-shot iterator
                if rnd == 1 and len(listed) >= 2:
                    lv = iter(list(lv)) if as_var else tuple(lv)
                try:
                    ce = pymbolic.compile(expr, lv)
                    order = list(listed) + sorted(set(pool) - set(listed))
                    args = [100 + 3 * i for i in range(len(order))]
                    got = ce(*args)
                    exp = pymbolic.evaluate(expr, dict(zip(order, args)))
                    ce2 = pickle.loads(pickle.dumps(ce))
                    ok = got == exp and ce2(*args) == exp
                    detail = f"compiled({args}) = {got}, expected {exp} for argument order {order}"
                except Exception as e:  # noqa: BLE001
                    ok = False
                    detail = f"raised {e!r}"
                if not ok:
                    res.status = "violation"
                    res.violations.append(Violation(
                        sig=f"argorder listed={listed} var={as_var} variables={n_vars} round={rnd}", kind="pygen-argument-order",
                        detail=f"compile({expr}, {lv}) (round {rnd} of a history of compiles of this expression): {detail}",
                        replay={"listed": list(listed), "variables": pool}))
    res.paths = 1
    return res


def check_item(item, tier):
    if item[0] == "skel":
        return check_skeleton(item[1], tier)
    if item[0] == "twin":
        return check_skeleton(item[1], tier, twin=True)
    if item[0] == "argorder":
        return check_argorder(item[1])
    raise ValueError(item)
