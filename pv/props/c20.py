"""C20 — statement-stream utilities keep programs well-formed.

Structure-only property.  Small-domain choices are symbolic and enumerated by the
solver with a coverage query: which ids the statements of the two streams carry
(clash patterns), which statement depends on which (one symbolic boolean per
ordered pair), which identifiers each statement uses, what the caller's filter
answers per name.  Per path the real functions run and their results are compared
with independent scans / a reference transitive reduction."""
from __future__ import annotations

import itertools
import re

import z3

import pymbolic.primitives as p
from pv.common import ItemResult, Violation
from pv.engine import explore, sym
from pv.engine.explore import Explorer, HarnessError
from pv.props.c04 import children_of

BOUNDS = {"quick": {"fusion": "streams of 2 + 3 statements, ids from a 3-name alphabet, all 64 dependency relations inside the "
                              "second stream, repeated fusion", "disambiguation": "3 statements per stream over identifiers x y z i, "
                    "all filter answers", "dot": "all DAGs on <= 5 statements in 2 listing orders", "max_paths": 5000},
          "thorough": {"dot": "all DAGs on <= 6 statements, 3 listing orders", "max_paths": 200000}}
ASSUMPTIONS = ["identifiers a statement uses = variables in its lhs, rhs and condition, excluding called function names"]
RULE = "items per utility and shape; choices enumerated by z3 with coverage queries"

V = p.Variable


def _viol(res, sig, kind, detail):
    res.status = "violation"
    res.violations.append(Violation(sig=sig, kind=kind, detail=detail, replay={"detail": detail}))


def scan_vars(e):
    """independent scan: variable names occurring in e (function symbols of calls excluded)"""
    out = set()

    def walk(x, is_fn=False):
        if isinstance(x, p.Variable):
            if not is_fn:
                out.add(x.name)
            return
        if isinstance(x, (p.Call, p.CallWithKwargs)):
            walk(x.function, True)
            for c in x.parameters:
                walk(c)
            if isinstance(x, p.CallWithKwargs):
                for c in x.kw_parameters.values():
                    walk(c)
            return
        for c in children_of(x):
            walk(c)
    walk(e)
    return out


# {{{ read / written variables

def stmt_pool():
    from pymbolic.imperative.statement import Assignment, ConditionalAssignment, Nop
    x, y, z, a, i, j, f = (V(n) for n in "xyzaijf")
    return [
        ("x <- y + z", Assignment(lhs=x, rhs=p.Sum((y, z)), id="s"), {"lhs": x, "rhs": p.Sum((y, z)), "cond": None}),
        ("a[i] <- y", Assignment(lhs=p.Subscript(a, i), rhs=y, id="s"), {"lhs": p.Subscript(a, i), "rhs": y, "cond": None}),
        ("a[i + j] <- a[j]*2", Assignment(lhs=p.Subscript(a, p.Sum((i, j))), rhs=p.Product((p.Subscript(a, j), 2)), id="s"),
         {"lhs": p.Subscript(a, p.Sum((i, j))), "rhs": p.Product((p.Subscript(a, j), 2)), "cond": None}),
        ("x <- f(y, k=z)", Assignment(lhs=x, rhs=p.CallWithKwargs(f, (y,), {"k": z}), id="s"),
         {"lhs": x, "rhs": p.CallWithKwargs(f, (y,), {"k": z}), "cond": None}),
        ("x <- 1 if y < z", ConditionalAssignment(lhs=x, rhs=1, condition=p.Comparison(y, "<", z), id="s"),
         {"lhs": x, "rhs": 1, "cond": p.Comparison(y, "<", z)}),
        ("a[i] <- x if j", ConditionalAssignment(lhs=p.Subscript(a, i), rhs=x, condition=j, id="s"),
         {"lhs": p.Subscript(a, i), "rhs": x, "cond": j}),
        ("x <- 5", Assignment(lhs=x, rhs=5, id="s"), {"lhs": x, "rhs": 5, "cond": None}),
        ("nop", Nop(id="s"), {"lhs": None, "rhs": None, "cond": None}),
        ("a[i, j] <- o.fld", Assignment(lhs=p.Subscript(a, (i, j)), rhs=p.Lookup(V("o"), "fld"), id="s"),
         {"lhs": p.Subscript(a, (i, j)), "rhs": p.Lookup(V("o"), "fld"), "cond": None}),
    ]


def check_rw():
    res = ItemResult(item="read/written sets", sample={"family": "assignments to variables / subscripts, conditional, nop"})
    for name, st, parts in stmt_pool():
        res.path_assertions += 1
        lhs, rhs, cond = parts["lhs"], parts["rhs"], parts["cond"]
        exp_w = set()
        if lhs is not None:
            exp_w = {lhs.name if isinstance(lhs, p.Variable) else lhs.aggregate.name}
        idx_vars = scan_vars(lhs.index) if isinstance(lhs, p.Subscript) else set()
        must_read = (scan_vars(rhs) if rhs is not None else set()) | idx_vars | (scan_vars(cond) if cond is not None else set())
        may_read = must_read | (scan_vars(lhs) if lhs is not None else set())
        try:
            r, w = set(st.get_read_variables()), set(st.get_written_variables())
        except Exception as e:  # noqa: BLE001
            _viol(res, f"rw {name} raises", "stmt-rw", f"`{name}`: raised {e!r}")
            continue
        if w != exp_w:
            _viol(res, f"rw {name} written", "stmt-written", f"`{name}`: written variables {sorted(w)}, independent scan {sorted(exp_w)}")
        if not (must_read <= r <= may_read):
            _viol(res, f"rw {name} read", "stmt-read", f"`{name}`: read variables {sorted(r)}; an independent scan of rhs, lhs indices and "
                                                       f"condition finds {sorted(must_read)} (at most {sorted(may_read)})")
    res.paths = 1
    return res

# }}}


# {{{ fusion

NAMES = ["s0", "s1", "s2"]
# id alphabets; the later ones contain names a fresh-id generator would derive from another id of the alphabet
# (what the ids of an already fused stream look like)
NAME_SETS = [["s0", "s1", "s2"], ["s", "s_0", "t"], ["s", "s_0", "s_1"], ["s0", "s0_0", "s0_1"]]


def check_fuse(tier, twin=False, names_i=0):
    from pymbolic.imperative.statement import Assignment
    from pymbolic.imperative.transform import fuse_statement_streams_with_unique_ids
    NAMES = NAME_SETS[names_i]
    res = ItemResult(item=f"fuse streams ids={NAMES}", sample={"streams": "2 + 3 statements", "id_alphabet": NAMES})
    # symbolic choices: ids of the two a-statements, permutation of ids for b, dependency bits inside b and inside a
    a_ids = [z3.Int("a0"), z3.Int("a1")]
    b_perm = z3.Int("bperm")
    perms = list(itertools.permutations(range(3)))
    dep = {(i, j): z3.Bool(f"d{i}{j}") for i in range(3) for j in range(3) if i != j}
    pre = [z3.And(a >= 0, a < 3) for a in a_ids] + [a_ids[0] != a_ids[1], b_perm >= 0, b_perm < len(perms)]

    def harness():
        ai = [explore.realise(a) for a in a_ids]
        bp = perms[explore.realise(b_perm)]
        deps = {k: bool(sym.SymBool(v)) for k, v in dep.items()}
        sa = [Assignment(lhs=V(f"u{k}"), rhs=k, id=NAMES[ai[k]], depends_on=frozenset([NAMES[ai[0]]] if k == 1 else []))
              for k in range(2)]
        sb = [Assignment(lhs=V(f"w{k}"), rhs=k, id=NAMES[bp[k]],
                         depends_on=frozenset(NAMES[bp[j]] for j in range(3) if j != k and deps[(k, j)]))
              for k in range(3)]
        fused, idmap = fuse_statement_streams_with_unique_ids(sa, sb)
        bad = check_fused(sa, sb, fused, idmap)
        # repeated fusion of an already fused stream
        fused2, idmap2 = fuse_statement_streams_with_unique_ids(fused, sb)
        bad += ["refuse: " + b for b in check_fused(fused, sb, fused2, idmap2)]
        # the streams may be any iterables (one-shot iterators, generators), with the same outcome
        fused3, idmap3 = fuse_statement_streams_with_unique_ids(iter(list(sa)), (s_ for s_ in sb))
        if [(s_.id, sorted(s_.depends_on)) for s_ in fused3] != [(s_.id, sorted(s_.depends_on)) for s_ in fused] or idmap3 != idmap:
            bad.append(f"streams given as one-shot iterators fuse differently: ids {[s_.id for s_ in fused3]} instead of "
                       f"{[s_.id for s_ in fused]}")
        if twin:
            bad = bad or ["twin"] if len({s.id for s in fused}) == len(fused) and ai[0] == 0 else bad
        return (ai, bp, deps), bad

    ex = Explorer(pre=pre, max_paths=BOUNDS[tier]["max_paths"], timeout_ms=10000)
    paths = list(ex.run(harness))
    for path in paths:
        res.path_assertions += 1
        if path.exc is not None:
            _viol(res, f"fuse raises {type(path.exc).__name__}", "fuse-raises", f"fusion raised {path.exc!r}")
            break
        cfg, bad = path.result
        if bad:
            ai, bp, deps = cfg
            _viol(res, f"fuse a_ids={ai} b_ids={bp} deps={sorted(k for k, v in deps.items() if v)}", "fuse",
                  f"stream a ids {[NAMES[i] for i in ai]}, stream b ids {[NAMES[i] for i in bp]}, b dependencies "
                  f"{sorted(k for k, v in deps.items() if v)}: {bad[0]}")
            if len(res.violations) > 3:
                break
    if not ex.coverage_unsat(paths):
        res.status = "inconclusive" if res.status == "ok" else res.status
        res.note = "coverage query not unsat"
    _acc(res, ex)
    return res


def check_fused(sa, sb, fused, idmap):
    bad = []
    ids = [s.id for s in fused]
    if len(set(ids)) != len(ids):
        bad.append(f"ids are not distinct: {ids}")
    if len(fused) != len(sa) + len(sb):
        bad.append("wrong number of statements")
        return bad
    for o, n in zip(sa, fused[:len(sa)]):
        if not (n is o or (n.id == o.id and n.depends_on == o.depends_on and str(n) == str(o))):
            bad.append(f"first stream changed: {o.id} -> {n.id}")
    if set(idmap) != {s.id for s in sb}:
        bad.append(f"id map keys {sorted(idmap)} != ids of the second stream")
    for o, n in zip(sb, fused[len(sa):]):
        if n.id != idmap.get(o.id):
            bad.append(f"statement {o.id} was renamed to {n.id}, the map says {idmap.get(o.id)}")
        want = frozenset(idmap.get(d) for d in o.depends_on)
        if n.depends_on != want:
            bad.append(f"statement {o.id} (now {n.id}) depends on {sorted(n.depends_on)}, expected the renamed ids {sorted(map(str, want))}")
        if str(n.lhs) != str(o.lhs) or str(n.rhs) != str(o.rhs):
            bad.append("statement body changed")
    return bad


def _acc(res, ex):
    st = ex.stats
    res.paths += st.paths
    res.queries += st.queries
    res.unsat += st.unsat
    res.sat += st.sat
    res.solver_s += st.solver_s
    res.coverage_queries += st.coverage_queries

# }}}


# {{{ disambiguation

IDENTS = ["x", "y", "z", "i"]


def _mk_stmt(kind, names, sid):
    from pymbolic.imperative.statement import Assignment, ConditionalAssignment, Nop
    n0, n1, n2 = (V(n) for n in names)
    if kind == 0:
        return Assignment(lhs=n0, rhs=p.Sum((n1, n2)), id=sid)
    if kind == 1:
        return Assignment(lhs=p.Subscript(n0, n1), rhs=n2, id=sid)          # n1 only occurs as an lhs index
    if kind == 2:
        return ConditionalAssignment(lhs=n0, rhs=p.Product((n1, 2)), condition=p.Comparison(n2, "<", 0), id=sid)
    return Nop(id=sid)


def stmt_idents(st):
    out = set()
    for attr in ("lhs", "rhs", "condition"):
        v = getattr(st, attr, None)
        if v is not None and v is not True:
            out |= scan_vars(v)
    return out


def check_disambiguate(shape, tier, last_ident="i"):
    from pymbolic.imperative.transform import disambiguate_and_fuse, disambiguate_identifiers
    kinds_a, kinds_b = shape
    # the identifier only stream b uses; variants look like names a fresh-name generator could hand out for y / z
    # (a stream that is itself the result of an earlier disambiguation contains such names)
    IDENTS = ["x", "y", "z", last_ident]
    res = ItemResult(item=f"disambiguate kinds a={kinds_a} b={kinds_b} idents={IDENTS}",
                     sample={"statement_kinds": [kinds_a, kinds_b], "identifiers": IDENTS})
    # symbolic: which identifier each slot of each statement uses (from IDENTS), and the filter's answer per name
    slots = {}
    pre = []
    for stream, kinds in (("a", kinds_a), ("b", kinds_b)):
        for k in range(3):
            vname = f"{stream}0{k}"
            slots[vname] = z3.Int(vname)
            # keep the space small: stream a draws from x, y, z and stream b from y, z, i (two shared names);
            # only the first statement of a stream has free slots, later ones use a rotation of its names
            lo, hi = (0, 2) if stream == "a" else (1, 3)
            pre.append(z3.And(slots[vname] >= lo, slots[vname] <= hi))
    filt = {n: z3.Bool(f"filter_{n}") for n in IDENTS}

    def harness():
        choice = {k: explore.realise(v) for k, v in slots.items()}
        for stream, kinds in (("a", kinds_a), ("b", kinds_b)):
            for si in range(1, len(kinds)):
                for k in range(3):
                    choice[f"{stream}{si}{k}"] = choice[f"{stream}0{(k + si) % 3}"]
        fl = {n: bool(sym.SymBool(b)) for n, b in filt.items()}
        sa = [_mk_stmt(kd, [IDENTS[choice[f"a{si}{k}"]] for k in range(3)], f"ida{si}") for si, kd in enumerate(kinds_a)]
        sb = [_mk_stmt(kd, [IDENTS[choice[f"b{si}{k}"]] for k in range(3)], f"idb{si}") for si, kd in enumerate(kinds_b)]
        calls = []

        def should(name):
            calls.append(name)
            return fl[name]
        nb, subst = disambiguate_identifiers(sa, sb, should)
        bad = []
        ida = set().union(*[stmt_idents(s) for s in sa]) if sa else set()
        idb = set().union(*[stmt_idents(s) for s in sb]) if sb else set()
        want_keys = {n for n in ida & idb if fl[n]}
        if set(subst) != want_keys:
            bad.append(f"renamed {sorted(subst)}, but the identifiers occurring in both streams and passing the filter are "
                       f"{sorted(want_keys)}")
        news = {k: v.name for k, v in subst.items()}
        if len(set(news.values())) != len(news) or set(news.values()) & (ida | idb):
            bad.append(f"new names {news} are not fresh")
        for o, n in zip(sb, nb):
            for attr in ("lhs", "rhs", "condition"):
                vo, vn = getattr(o, attr, None), getattr(n, attr, None)
                if vo is None or vo is True:
                    continue
                want = {news.get(x, x) for x in scan_vars(vo)}
                if scan_vars(vn) != want:
                    bad.append(f"{attr} of `{o}` became `{vn}`: identifiers {sorted(scan_vars(vn))}, expected {sorted(want)}")
                exp_txt = re.sub(r"\b(" + "|".join(map(re.escape, news)) + r")\b", lambda m: news[m.group(1)], str(vo)) if news else str(vo)
                if str(vn) != exp_txt:
                    bad.append(f"{attr} of `{o}` became `{vn}`, expected `{exp_txt}`")
        idb2 = set().union(*[stmt_idents(s) for s in nb]) if nb else set()
        shared = {n for n in ida & idb2 if fl.get(n, True)}
        if shared:
            bad.append(f"after disambiguation the streams still share {sorted(shared)}")
        # the combined entry point
        fused, subst2, idmap = disambiguate_and_fuse(sa, sb, lambda nme: fl[nme])
        if set(subst2) != set(subst) or len({s.id for s in fused}) != len(fused):
            bad.append("disambiguate_and_fuse disagrees with its two steps")
        return (choice, fl), bad

    ex = Explorer(pre=pre, max_paths=BOUNDS[tier]["max_paths"] * 4, timeout_ms=10000)
    paths = list(ex.run(harness))
    for path in paths:
        res.path_assertions += 1
        if path.exc is not None:
            _viol(res, f"disambiguate {shape} raises {type(path.exc).__name__}", "disambiguate-raises", f"raised {path.exc!r}")
            break
        (choice, fl), bad = path.result
        if bad:
            sa = [str(_mk_stmt(kd, [IDENTS[choice[f"a{si}{k}"]] for k in range(3)], "i")) for si, kd in enumerate(kinds_a)]
            sb = [str(_mk_stmt(kd, [IDENTS[choice[f"b{si}{k}"]] for k in range(3)], "i")) for si, kd in enumerate(kinds_b)]
            _viol(res, f"disambiguate a={sa} b={sb} filter={sorted(n for n, v in fl.items() if v)}", "disambiguate",
                  f"streams a={sa}, b={sb}, filter true for {sorted(n for n, v in fl.items() if v)}: {bad[0]}")
            if len(res.violations) > 3:
                break
    if not ex.complete:
        res.status = "inconclusive" if res.status == "ok" else res.status
        res.note = "; ".join(ex.inconclusive_reasons[:1])
    elif not ex.coverage_unsat(paths):
        res.status = "inconclusive" if res.status == "ok" else res.status
        res.note = "coverage query not unsat"
    _acc(res, ex)
    return res

# }}}


# {{{ dot export = transitive reduction

def ref_transitive_reduction(n, edges):
    """edges: set of (u, v) meaning u depends on v; keep (u, v) iff there is no longer path u -> ... -> v"""
    adj = {u: {v for (a, v) in edges if a == u} for u in range(n)}

    def reach(u, v, skip_direct):
        seen, stack = set(), [w for w in adj[u] if not (skip_direct and w == v)]
        while stack:
            w = stack.pop()
            if w == v:
                return True
            if w in seen:
                continue
            seen.add(w)
            stack.extend(adj[w])
        return False
    return {(u, v) for (u, v) in edges if not reach(u, v, True)}


def check_dot(n, order_i, tier, twin=False, chain=False):
    from pymbolic.imperative.statement import Assignment
    from pymbolic.imperative.utils import get_dot_dependency_graph
    res = ItemResult(item=f"dot export n={n} order={order_i}", sample={"statements": n, "dags": 2 ** (n * (n - 1) // 2)})
    pairs = [(j, i) for j in range(n) for i in range(j)]          # j depends on i  (i < j: acyclic)
    bits = {pr: z3.Bool(f"e{pr[0]}{pr[1]}") for pr in pairs}
    orders = [list(range(n)), list(reversed(range(n))), [k for k in range(n) if k % 2] + [k for k in range(n) if not k % 2]]
    order = orders[order_i % len(orders)]
    pre = []
    if chain:
        # long chains with a few redundant shortcut edges: k depends on k-1 always, at most 2 of the other pairs
        res.item += " chain+shortcuts"
        pre = [bits[(k, k - 1)] for k in range(1, n)]
        others = [bits[pr] for pr in pairs if pr[0] - pr[1] >= 2]
        if n >= 7 and others:
            pre.append(z3.AtMost(*others, 2))

    def harness():
        edges = {pr for pr, b in bits.items() if bool(sym.SymBool(b))}
        stmts = [Assignment(lhs=V(f"v{k}"), rhs=k, id=f"st{k}", depends_on=frozenset(f"st{i}" for (j, i) in edges if j == k))
                 for k in order]
        dot = get_dot_dependency_graph(stmts, use_stmt_ids=True)
        got = {(int(m.group(1)), int(m.group(2))) for m in re.finditer(r"^st(\d+) -> st(\d+)\s*$", dot, re.M)}
        want = ref_transitive_reduction(n, edges)
        if twin:
            want = edges
        nodes = set(re.findall(r'^"st(\d+)" \[', dot, re.M))
        return edges, got, want, nodes

    ex = Explorer(pre=pre, max_paths=BOUNDS[tier]["max_paths"], timeout_ms=10000)
    paths = list(ex.run(harness))
    for path in paths:
        res.path_assertions += 1
        if path.exc is not None:
            _viol(res, f"dot n={n} raises", "dot-raises", f"raised {path.exc!r}")
            break
        edges, got, want, nodes = path.result
        if got != want or nodes != {str(k) for k in range(n)}:
            _viol(res, f"dot n={n} order={order} edges={sorted(edges)}", "dot-transitive-reduction",
                  f"{n} statements listed in order {order}, dependencies {sorted(edges)}: drawn edges {sorted(got)}, "
                  f"transitive reduction {sorted(want)}")
            if len(res.violations) > 2:
                break
    if not ex.complete:
        res.status = "inconclusive" if res.status == "ok" else res.status
        res.note = "; ".join(ex.inconclusive_reasons[:1])
    elif not ex.coverage_unsat(paths):
        res.status = "inconclusive" if res.status == "ok" else res.status
        res.note = "coverage query not unsat"
    _acc(res, ex)
    return res

# }}}


def items(tier):
    out = [("rw",), ("fuse",)] + [("fuse", i) for i in range(1, len(NAME_SETS))]
    shapes = [((0, 1), (0, 1)), ((1,), (1, 2)), ((0, 2), (1,)), ((1, 0), (2, 3)), ((2,), (0,)), ((0,), (1,)), ((1,), (1,))]
    out += [("disambiguate", s) for s in shapes]
    for li in (["y_0", "z_0"] if tier == "quick" else ["y_0", "z_0", "y_1", "z_1", "z0", "_y"]):
        for s in (shapes[:2] if tier == "quick" else shapes):
            out.append(("disambiguate", s, li))
    nmax = 5 if tier == "quick" else 6
    for n in range(1, nmax + 1):
        for o in range(2 if tier == "quick" else 3):
            out.append(("dot", n, o))
    for n in (6, 7, 8):
        for o in range(3):
            out.append(("dotchain", n, o))
    return out


def twins(tier):
    return [("twin_dot",)]


def check_item(item, tier):
    k = item[0]
    if k == "rw":
        return check_rw()
    if k == "fuse":
        return check_fuse(tier, names_i=item[1] if len(item) > 1 else 0)
    if k == "disambiguate":
        return check_disambiguate(item[1], tier, *item[2:])
    if k == "dot":
        return check_dot(item[1], item[2], tier)
    if k == "dotchain":
        return check_dot(item[1], item[2], tier, chain=True)
    if k == "twin_dot":
        return check_dot(3, 0, tier, twin=True)
    raise ValueError(item)
