"""C01 — structural equality, consistent hashing, immutability.

Symbolic family: the generated __eq__/__hash__ (and the legacy Expression.__eq__/
get_hash) look the name `hash` up in their globals; the harness rebinds that name
to H(seed, code(x)), an *uninterpreted function* of a symbolic seed.  Congruence
gives exactly what a real hash guarantees (equal input => equal hash) and nothing
more, so collisions are explored.  Scalar fields (names, prefixes, numeric
leaves, ids) are z3 String/Int proxies.  z3 decides, for all field values, seeds
and hash functions:  (a == b) <=> fields pairwise equal;  symmetry; transitivity;
a == b => hash(a) == hash(b);  != is the negation.

Concrete family (real hash): all pairs of alphabet instances per class and across
sibling classes, dict/set behaviour, immutability, operation histories chosen by
solver-enumerated selectors with a coverage query."""
from __future__ import annotations

import builtins
import collections
import types
from typing import ClassVar
import copy
import dataclasses
import itertools
import pickle

import z3
from immutabledict import immutabledict

import pymbolic.primitives as p
from pv import harness as H
from pv.common import ItemResult, Violation
from pv.engine import explore, sym
from pv.engine.explore import Explorer, HarnessError, Query

BOUNDS = {"quick": {"classes": "every Expression subclass in pymbolic.primitives, geometric_algebra.primitives + 7 user classes",
                    "symbolic_objects": 3, "child_variants": 3, "history_length": 2, "max_paths": 600},
          "thorough": {"symbolic_objects": 3, "child_variants": 3, "history_length": 3, "max_paths": 4000}}
ASSUMPTIONS = ["hash() is modelled as an uninterpreted function of (seed, structural code): equal inputs give equal hashes, "
               "collisions are possible", "strings are z3 strings compared for equality only",
               "default interpreter mode (__debug__ true); python -O is outside the claim"]
RULE = ("symbolic items: (class, child-variant, pre-history); concrete items: (class) all instance pairs + sibling classes + "
        "histories; non-trivial = at least one solver query or path assertion was evaluated")


# {{{ user classes (small hierarchies)

@p.expr_dataclass()
class DecChild(p.Variable):
    tag: str


@p.expr_dataclass()
class DecGrand(DecChild):
    n: int


@p.expr_dataclass(init=False)
class OwnInit(p.Expression):
    """decorated with init=False: hand-written __init__ (the decorator's other option)"""
    lo: ExpressionT
    tag: str

    def __init__(self, lo, tag="t"):
        object.__setattr__(self, "lo", lo)
        object.__setattr__(self, "tag", tag)


@p.expr_dataclass()
class ClassVarBetween(p.Expression):
    """a class-level (ClassVar) annotation between two fields"""
    first: ExpressionT
    marker: ClassVar[int] = 5
    second: str


@p.expr_dataclass(hash=False)
class NoHashChild(p.Variable):
    """decorated with hash=False (the decorator's other option): inherits the parent's __hash__, adds a field"""
    extra: str


@p.expr_dataclass()
class CmpWithNote(p.Comparison):
    """decorated subclass of a node type that itself declares ClassVars after its fields"""
    note: str


@p.expr_dataclass()
class KwOnlyFields(p.Expression):
    """decorated user class with a keyword-only field and a field that is not an __init__ argument"""
    arg: ExpressionT
    kwf: int = dataclasses.field(default=0, kw_only=True)
    nif: int = dataclasses.field(default=7, init=False)


class PlainSub(p.Variable):
    """undecorated subclass without extra fields"""
    mapper_method = "map_plain_sub"


class LegacyOnDec(p.Variable):
    """legacy (init-args protocol) child of a decorated parent"""
    init_arg_names = ("name", "tag")

    def __init__(self, name, tag):
        super().__init__(name)
        object.__setattr__(self, "tag", tag)

    def __getinitargs__(self):
        return (self.name, self.tag)

    mapper_method = "map_legacy_on_dec"


class LegacyOnDecChild(LegacyOnDec):
    """undecorated child of a legacy class: inherits init_arg_names / __getinitargs__ (three-level hierarchy)"""
    mapper_method = "map_legacy_on_dec_child"


class LegacyRoot(p.Expression):
    init_arg_names = ("p1", "p2")

    def __init__(self, p1, p2):
        self.p1 = p1
        self.p2 = p2

    def __getinitargs__(self):
        return (self.p1, self.p2)

    mapper_method = "map_legacy_root"


class LegacySub(LegacyRoot):
    init_arg_names = ("p1", "p2", "p3")

    def __init__(self, p1, p2, p3):
        super().__init__(p1, p2)
        self.p3 = p3

    def __getinitargs__(self):
        return (self.p1, self.p2, self.p3)

    mapper_method = "map_legacy_sub"


class LegacyTwin(LegacyRoot):
    """same init args as the parent, different class"""
    mapper_method = "map_legacy_twin"


USER_CLASSES = [DecChild, DecGrand, OwnInit, ClassVarBetween, CmpWithNote, NoHashChild, PlainSub, LegacyOnDec, LegacyOnDecChild, LegacyRoot, LegacySub, LegacyTwin]

# }}}


def all_classes():
    import pymbolic.geometric_algebra.primitives as gp  # noqa: F401

    def subs(c):
        for s in c.__subclasses__():
            yield s
            yield from subs(s)
    out = []
    for c in set(subs(p.Expression)):
        if c.__module__.startswith("pymbolic.") and c.__name__ not in (
                "Polynomial", "Rational", "_GeometricCalculusExpression"):
            out.append(c)
    out += USER_CLASSES
    return sorted(set(out), key=lambda c: (c.__module__, c.__name__))


def field_spec(cls):
    """list of (name, kind)"""
    if cls in (LegacyOnDec, LegacyOnDecChild):
        return [("name", "str"), ("tag", "str")]
    if cls in (LegacyRoot, LegacyTwin):
        return [("p1", "expr"), ("p2", "str")]
    if cls is LegacySub:
        return [("p1", "expr"), ("p2", "str"), ("p3", "expr")]
    out = []
    for f in dataclasses.fields(cls):
        t = str(f.type)
        if f.name == "operator":
            k = "operator"
        elif f.name == "kw_parameters":
            k = "mapping"
        elif t.startswith("tuple[str"):
            k = "strs"
        elif t.startswith("tuple["):
            k = "exprs"
        elif t == "ExpressionT":
            k = "expr"
        elif t == "str":
            k = "str"
        elif t == "str | None":
            k = "optstr"
        elif t == "int":
            k = "int"
        elif t == "Hashable":
            k = "int"
        elif "Callable" in t:
            k = "callable"
        else:
            raise HarnessError(f"unknown field type {cls.__name__}.{f.name}: {t}")
        out.append((f.name, k))
    return out


# {{{ symbolic strings and the hash stub

class SymStr(sym.Sym):
    __slots__ = ()

    def __init__(self, term):
        self.term = term

    def __eq__(self, o):
        if isinstance(o, SymStr):
            return sym.SymBool(self.term == o.term)
        if isinstance(o, str):
            return sym.SymBool(self.term == z3.StringVal(o))
        return NotImplemented

    def __ne__(self, o):
        r = self.__eq__(o)
        return r if r is NotImplemented else sym.SymBool(z3.Not(r.term))

    def __deepcopy__(self, memo):
        return self


def _no_deepcopy(self, memo):
    return self


sym.Sym.__deepcopy__ = _no_deepcopy
sym.Sym.__copy__ = lambda self: self


class HashStub:
    def __init__(self):
        self.active = False
        self.seed = None
        self.model = None     # concrete mode: answer from a z3 model
        self.fs = {}
        self.objs = []

    def f(self, name, *sorts):
        key = (name, len(sorts))
        if key not in self.fs:
            self.fs[key] = z3.Function(name, *sorts, z3.IntSort())
        return self.fs[key]

    def code(self, x):
        I, S = z3.IntSort(), self.seed
        if isinstance(x, p.Expression):
            h = x.__hash__()
            return h.term if isinstance(h, sym.SymInt) else z3.IntVal(h)
        if isinstance(x, tuple):
            cs = [self.code(e) for e in x]
            return self.f(f"Htup{len(cs)}", *([I] * (len(cs) + 1)))(S, *cs)
        if isinstance(x, SymStr):
            return self.f("Hstr", I, z3.StringSort())(S, x.term)
        if isinstance(x, str):
            return self.f("Hstr", I, z3.StringSort())(S, z3.StringVal(x))
        if isinstance(x, sym.SymInt):
            return self.f("Hnum", I, z3.RealSort())(S, z3.ToReal(x.term))
        if isinstance(x, (bool, int, float)):
            return self.f("Hnum", I, z3.RealSort())(S, sym._realval(x))
        if x is None:
            return self.f("Hnone", I)(S)
        if isinstance(x, (dict, immutabledict)):
            parts = []
            for k in sorted(x):
                parts += [self.code(k), self.code(x[k])]
            return self.f(f"Hmap{len(parts)}", *([I] * (len(parts) + 1)))(S, *parts)
        # other hashable objects (types, callables): identity
        for i, o in enumerate(self.objs):
            if o is x:
                break
        else:
            self.objs.append(x)
            i = len(self.objs) - 1
        return self.f("Hobj", I, I)(S, z3.IntVal(i))

    def __call__(self, x):
        if not self.active:
            return builtins.hash(x)
        t = self.code(x)
        if self.model is not None:
            return self.model.eval(t, model_completion=True).as_long()
        return sym.SymInt(t)


STUB = HashStub()


def install_stub():
    p.hash = STUB
    for cls in all_classes():
        for nm in ("__eq__", "__hash__"):
            fn = cls.__dict__.get(nm)
            if fn is not None and hasattr(fn, "__globals__") and fn.__globals__ is not p.__dict__:
                fn.__globals__["hash"] = STUB

# }}}


# {{{ building instances

class SymProvider:
    def __init__(self, pre):
        self.pre = pre

    def str(self, name):
        return SymStr(z3.String(name))

    def int(self, name):
        return sym.SymInt(z3.Int(name))


class ModelProvider:
    def __init__(self, model):
        self.model = model

    def str(self, name):
        v = self.model.eval(z3.String(name), model_completion=True)
        return v.as_string()

    def int(self, name):
        return self.model.eval(z3.Int(name), model_completion=True).as_long()


OPERATORS = ["==", "!=", "<", "<=", ">", ">="]


def make(cls, tag, prov, variant, choice=0):
    """instance of cls whose scalar fields are fresh values from prov, named by tag"""
    def expr(nm):
        if variant == 0:
            return prov.int(f"{tag}.{nm}")
        if variant == 1:
            return p.Variable(prov.str(f"{tag}.{nm}.name"))
        return p.Sum((p.Variable(prov.str(f"{tag}.{nm}.name")), prov.int(f"{tag}.{nm}.c")))
    args = []
    for nm, k in field_spec(cls):
        if k == "expr":
            args.append(expr(nm))
        elif k == "exprs":
            args.append((expr(nm + "0"), expr(nm + "1")))
        elif k in ("str",):
            args.append(prov.str(f"{tag}.{nm}"))
        elif k == "optstr":
            args.append(prov.str(f"{tag}.{nm}") if choice % 2 == 0 else None)
        elif k == "strs":
            args.append((prov.str(f"{tag}.{nm}0"), prov.str(f"{tag}.{nm}1")))
        elif k == "int":
            args.append(prov.int(f"{tag}.{nm}"))
        elif k == "operator":
            args.append(OPERATORS[choice % 6])
        elif k == "mapping":
            args.append(immutabledict({"k": expr(nm + ".k"), "j": expr(nm + ".j")}))
        elif k == "callable":
            args.append([None, float][choice % 2])
        else:
            raise HarnessError(k)
    return cls(*args)


def fields_of(x):
    if "_is_expr_dataclass" in type(x).__dict__:
        return tuple(getattr(x, f.name) for f in dataclasses.fields(x))
    return tuple(getattr(x, n) for n, _ in field_spec(type(x)))


def struct_eq_term(a, b):
    """oracle: same class and pairwise-equal fields, as a z3 term"""
    if isinstance(a, p.Expression) or isinstance(b, p.Expression):
        if type(a) is not type(b):
            return z3.BoolVal(False)
        fa, fb = fields_of(a), fields_of(b)
        return z3.And(*[struct_eq_term(x, y) for x, y in zip(fa, fb)]) if fa else z3.BoolVal(True)
    if isinstance(a, tuple) and isinstance(b, tuple):
        if len(a) != len(b):
            return z3.BoolVal(False)
        return z3.And(*[struct_eq_term(x, y) for x, y in zip(a, b)]) if a else z3.BoolVal(True)
    if isinstance(a, (dict, immutabledict)) and isinstance(b, (dict, immutabledict)):
        if set(a) != set(b):
            return z3.BoolVal(False)
        return z3.And(*[struct_eq_term(a[k], b[k]) for k in a]) if a else z3.BoolVal(True)
    if isinstance(a, sym.Sym) or isinstance(b, sym.Sym):
        r = a == b
        if r is NotImplemented or isinstance(r, bool):
            return z3.BoolVal(False)
        return r.term
    return z3.BoolVal(bool(a == b))


def struct_eq_concrete(a, b):
    if isinstance(a, p.Expression) or isinstance(b, p.Expression):
        if type(a) is not type(b):
            return False
        return all(struct_eq_concrete(x, y) for x, y in zip(fields_of(a), fields_of(b)))
    if isinstance(a, tuple) and isinstance(b, tuple):
        return len(a) == len(b) and all(struct_eq_concrete(x, y) for x, y in zip(a, b))
    if isinstance(a, (dict, immutabledict)) and isinstance(b, (dict, immutabledict)):
        return set(a) == set(b) and all(struct_eq_concrete(a[k], b[k]) for k in a)
    return bool(a == b)

# }}}


PRE_HISTORIES = ["none", "hash_a", "hash_b_then_a", "copy_b", "deepcopy_a", "eq_first_ba"]


def items(tier):
    out = []
    for cls in all_classes():
        fs = field_spec(cls)
        has_expr = any(k in ("expr", "exprs", "mapping") for _, k in fs)
        n_slots = sum({"expr": 1, "exprs": 2, "mapping": 2}.get(k, 0) for _, k in fs)
        variants = ([0, 1, 2] if n_slots <= 3 else [0, 1]) if has_expr else [0]
        for v in variants:
            for hist in PRE_HISTORIES:
                if hist != "none" and v != 1 and has_expr:
                    continue
                choices = [(0, 0, 0)]
                if any(k in ("operator", "optstr", "callable") for _, k in fs):
                    choices = [(0, 0, 0), (0, 1, 0), (1, 1, 0)]
                for ch in choices:
                    out.append(("sym", cls.__module__, cls.__name__, v, hist, ch))
        out.append(("conc", cls.__module__, cls.__name__))
    out.append(("siblings",))
    out.append(("userdefs",))
    return out


def twins(tier):
    return [("twin", "drop_field"), ("twin", "hash_as_eq")]


def _cls(mod, name):
    import importlib
    return getattr(importlib.import_module(mod), name)


def _tt(v):
    return sym.truth_term(v)


def check_sym(item, tier, twin=None):
    _, mod, name, variant, hist, ch = item
    cls = _cls(mod, name)
    text = f"sym {name} variant={variant} pre={hist} choice={ch}"
    res = ItemResult(item=text, sample={"class": name, "child_variant": variant, "pre_history": hist})
    install_stub()
    sym.set_family("int")
    prov = SymProvider([])

    def harness():
        STUB.active = True
        STUB.model = None
        STUB.seed = z3.Int("hash_seed")
        try:
            a = make(cls, "a", prov, variant, ch[0])
            b = make(cls, "b", prov, variant, ch[1])
            c = make(cls, "c", prov, variant, ch[2])
            if hist == "hash_a":
                a.__hash__()
            elif hist == "hash_b_then_a":
                b.__hash__()
                a.__hash__()
            elif hist == "copy_b":
                b.__hash__()
                b = copy.copy(b)
            elif hist == "deepcopy_a":
                a.__hash__()
                a = copy.deepcopy(a)
            elif hist == "eq_first_ba":
                b == a  # noqa: B015
            r = {"ab": a == b, "ba": b == a, "bc": b == c, "ac": a == c, "aa": a == a, "ne": a != b}
            return a, b, c, r, a.__hash__(), b.__hash__()
        finally:
            STUB.active = False

    ex = Explorer(pre=[], max_paths=BOUNDS[tier]["max_paths"], timeout_ms=10000)
    q = Query(timeout_ms=10000)
    for path in ex.run(harness):
        if path.exc is not None:
            # an operation under test raised: reproduce with plain values and the real hash
            model = H.path_model([], path.pc)
            ok, detail = _replay_exc(cls, variant, ch, hist, model)
            if not ok:
                raise HarnessError(f"{text}: harness raised {path.exc!r} (not reproducible concretely)")
            res.status = "violation"
            res.violations.append(Violation(sig=f"{name} v{variant} {hist} {ch} :: raises", kind="eq-raises",
                                            detail=detail, replay={"class": name, "detail": detail}))
            break
        a, b, c, r, ha, hb = path.result
        orc_ab = struct_eq_term(a, b)
        if twin == "drop_field":
            # deliberately wrong oracle: ignores the last field
            fa, fb = fields_of(a), fields_of(b)
            orc_ab = z3.And(*[struct_eq_term(x, y) for x, y in zip(fa[:-1], fb[:-1])]) if len(fa) > 1 else z3.BoolVal(True)
        goals = [
            ("eq-iff-fields", _tt(r["ab"]) == orc_ab),
            ("symmetric", _tt(r["ab"]) == _tt(r["ba"])),
            ("transitive", z3.Implies(z3.And(_tt(r["ab"]), _tt(r["bc"])), _tt(r["ac"]))),
            ("reflexive", _tt(r["aa"])),
            ("ne-is-not-eq", _tt(r["ne"]) == z3.Not(_tt(r["ab"]))),
            ("eq-implies-hash-eq", z3.Implies(_tt(r["ab"]), sym.eq_term(ha, hb, "int"))),
        ]
        if twin == "hash_as_eq":
            goals = [("hash-eq-implies-eq", z3.Implies(sym.eq_term(ha, hb, "int"), _tt(r["ab"])))]
        for gname, goal in goals:
            res.path_assertions += 1
            verdict, model = q.valid(path.pc, goal)
            if verdict == "unsat":
                continue
            if verdict == "unknown":
                res.status = "inconclusive"
                res.note = f"{gname}: unknown"
                continue
            # replay on concrete objects, real hash first, then a concrete colliding hash from the model
            ok, detail = _replay_sym(cls, variant, ch, hist, model, gname, twin)
            if not ok:
                raise HarnessError(f"{text}: counterexample for {gname} did not reproduce: {detail}")
            res.status = "violation"
            res.violations.append(Violation(sig=f"{name} v{variant} {hist} {ch} :: {gname}", kind=f"eq-{gname}",
                                            detail=detail, replay={"class": name, "goal": gname, "detail": detail}))
            break
    if not ex.complete and res.status == "ok":
        res.status = "inconclusive"
        res.note = "; ".join(ex.inconclusive_reasons[:2])
    return H.finish(res, [ex.stats], q)


def _replay_exc(cls, variant, ch, hist, model):
    prov = ModelProvider(model)
    STUB.active = False
    try:
        a = make(cls, "a", prov, variant, ch[0])
        b = make(cls, "b", prov, variant, ch[1])
        if hist == "hash_a":
            hash(a)
        elif hist == "hash_b_then_a":
            hash(b)
            hash(a)
        elif hist == "copy_b":
            hash(b)
            b = copy.copy(b)
        elif hist == "deepcopy_a":
            hash(a)
            a = copy.deepcopy(a)
        elif hist == "eq_first_ba":
            b == a  # noqa: B015
        (a == b, b == a, a != b, hash(a), hash(b))
    except Exception as e:  # noqa: BLE001
        return True, f"history {hist!r} then ==/hash on {cls.__name__} objects raised {e!r}"
    return False, ""


def _replay_sym(cls, variant, ch, hist, model, gname, twin):
    prov = ModelProvider(model)
    for mode in ("real-hash", "model-hash"):
        STUB.active = mode == "model-hash"
        STUB.model = model if mode == "model-hash" else None
        STUB.seed = z3.Int("hash_seed")
        try:
            a = make(cls, "a", prov, variant, ch[0])
            b = make(cls, "b", prov, variant, ch[1])
            c = make(cls, "c", prov, variant, ch[2])
            if hist in ("hash_a", "hash_b_then_a"):
                a.__hash__()
            r_ab, r_ba, r_bc, r_ac = a == b, b == a, b == c, a == c
            exp = struct_eq_concrete(a, b)
            ha, hb = a.__hash__(), b.__hash__()
            bad = {
                "eq-iff-fields": bool(r_ab) != exp if twin != "drop_field" else True,
                "symmetric": bool(r_ab) != bool(r_ba),
                "transitive": bool(r_ab) and bool(r_bc) and not bool(r_ac),
                "reflexive": not (a == a),
                "ne-is-not-eq": bool(a != b) == bool(r_ab),
                "eq-implies-hash-eq": bool(r_ab) and ha != hb,
                "hash-eq-implies-eq": ha == hb and not bool(r_ab),
            }[gname]
            if bad:
                return True, (f"[{mode}] a={a!r} b={b!r}: a==b -> {bool(r_ab)}, fields equal -> {exp}, "
                              f"b==a -> {bool(r_ba)}, hash(a)==hash(b) -> {ha == hb}")
        finally:
            STUB.active = False
            STUB.model = None
    return False, f"a={a!r} b={b!r}"


# {{{ concrete family

def concrete_instances(cls):
    x, y = p.Variable("x"), p.Variable("y")
    leafs = [x, y, 1, 1.0, True, 2, p.Sum((x, 1)), p.Sum((x, 1.0)), p.NaN(), p.NaN(float)]
    strs = ["n", "m", ""]
    spec = field_spec(cls)
    if not spec:
        return [cls(), cls()]
    base = []
    for nm, k in spec:
        base.append({"expr": x, "exprs": (x, y), "str": "n", "optstr": None, "strs": ("u", "v"), "int": 0,
                     "operator": "<", "mapping": immutabledict({"k": x}), "callable": None}[k])
    out = [cls(*base), cls(*base)]
    for i, (nm, k) in enumerate(spec):
        alts = {"expr": leafs[1:], "exprs": [(x,), (y, x), (x, y, x), (1, y), (1.0, y), (True, y), ()],
                "str": strs[1:], "optstr": ["n", "m"], "strs": [("u",), ("v", "u"), ()], "int": [1, 2],
                "operator": ["<=", "==", "lt"], "mapping": [immutabledict({"k": y}), immutabledict({"j": x}),
                                                             immutabledict({"k": x, "j": y}), {"k": x},
                                                             types.MappingProxyType({"k": x}), collections.UserDict({"k": x}),
                                                             collections.ChainMap({"k": x})],
                "callable": [float, int]}[k]
        for alt in alts:
            args = list(base)
            args[i] = alt
            try:
                out.append(cls(*args))
            except Exception:  # noqa: BLE001
                pass
    return out


def _rep(x):
    try:
        return repr(x)
    except Exception as e:  # noqa: BLE001
        return f"<unprintable {type(x).__name__}: {e!r}>"


def _safe(fn):
    try:
        return ("val", fn())
    except Exception as e:  # noqa: BLE001
        return ("exc", type(e).__name__)


HIST_OPS = ["hash", "eq_other", "copy", "deepcopy", "pickle", "identity_mapper", "cached_identity", "dict_insert",
            "setattr_attempt"]


def _apply_op(op, obj, other):
    from pymbolic.mapper import CachedIdentityMapper, IdentityMapper
    if op == "hash":
        hash(obj)
        return obj
    if op == "eq_other":
        obj == other  # noqa: B015
        return obj
    if op == "copy":
        return copy.copy(obj)
    if op == "deepcopy":
        return copy.deepcopy(obj)
    if op == "pickle":
        return pickle.loads(pickle.dumps(obj))
    if op == "identity_mapper":
        try:
            return IdentityMapper()(obj)
        except Exception:  # noqa: BLE001  (node types the identity mapper does not handle)
            return obj
    if op == "cached_identity":
        try:
            return CachedIdentityMapper()(obj)
        except Exception:  # noqa: BLE001
            return obj
    if op == "dict_insert":
        {obj: 1}
        return obj
    if op == "setattr_attempt":
        fs = field_spec(type(obj))
        try:
            setattr(obj, fs[0][0] if fs else "newattr", 12345)
        except Exception:  # noqa: BLE001
            pass
        return obj
    raise ValueError(op)


def check_conc(item, tier):
    _, mod, name = item
    cls = _cls(mod, name)
    text = f"conc {name}"
    res = ItemResult(item=text, sample={"class": name, "family": "concrete alphabet"})
    insts = concrete_instances(cls)

    def viol(sig, detail):
        res.status = "violation"
        res.violations.append(Violation(sig=f"{name} :: {sig}", kind=f"conc-{sig.split(':')[0]}", detail=detail,
                                        replay={"class": name, "detail": detail}))

    # pairs: eq <=> fieldwise, symmetric, hash, dict/set
    for a, b in itertools.product(insts, insts):
        res.path_assertions += 1
        exp = struct_eq_concrete(a, b)
        probe = _safe(lambda: (a == b, b == a, a != b, hash(a), hash(b)))
        if probe[0] == "exc":
            viol(f"raises:{a!r}|{b!r}", f"comparing / hashing {a!r} and {b!r} raised {probe[1]}")
            continue
        got, got2 = a == b, b == a
        if bool(got) != exp or bool(got2) != exp or bool(a != b) == exp:
            viol(f"eq:{a!r}|{b!r}", f"{a!r} == {b!r} -> {got} / reversed {got2} / != {a != b}; fields equal -> {exp}")
            continue
        if exp:
            if hash(a) != hash(b):
                viol(f"hash:{a!r}|{b!r}", f"equal but hash differs: {a!r} {b!r}")
            elif b not in {a} or {a: 1}.get(b) != 1:
                viol(f"dict:{a!r}|{b!r}", f"equal but not interchangeable as dict/set key: {a!r} {b!r}")
        else:
            if b in {a} or b in {a: 1}:
                viol(f"dict:{a!r}|{b!r}", f"unequal objects found each other in set/dict: {a!r} {b!r}")
    # reflexivity with a value that is not equal to itself (float nan) in each scalar field
    spec = field_spec(cls)
    for i, (nm, k) in enumerate(spec):
        if k != "expr":
            continue
        args = [{"expr": p.Variable("x"), "exprs": (p.Variable("x"),), "str": "n", "optstr": None, "strs": ("u",), "int": 0,
                 "operator": "<", "mapping": immutabledict({"k": 1}), "callable": None}[kk] for _, kk in spec]
        args[i] = float("nan")
        try:
            a = cls(*args)
        except Exception:  # noqa: BLE001
            continue
        res.path_assertions += 1
        r = _safe(lambda: (bool(a == a), bool(a != a), a in {a}, {a: 1}.get(a), hash(a) == hash(a)))
        if r != ("val", (True, False, True, 1, True)):
            viol(f"reflexive-nan:{nm}", f"{cls.__name__} with float nan in field {nm!r}: (a == a, a != a, a in {{a}}, {{a: 1}}.get(a), "
                                        f"hash stable) = {r}, expected (True, False, True, 1, True)")
    # triples: transitivity
    for a, b, c in itertools.product(insts[:8], repeat=3):
        res.path_assertions += 1
        if a == b and b == c and not a == c:
            viol(f"trans:{a!r}|{b!r}|{c!r}", "transitivity")
    # immutability
    for a in insts[:4]:
        h0 = hash(a)
        ref = copy.deepcopy(a)
        a_text = repr(a)
        legacy = "_is_expr_dataclass" not in cls.__dict__ and cls not in (PlainSub,)
        names = [n for n, _ in field_spec(cls)] + (
            ["brand_new_attribute"] if "_is_expr_dataclass" in cls.__dict__ else [])
        for nm in names:
            if legacy:
                break       # legacy classes are plain objects; the immutability clause is about the dataclass nodes
            for what in ("set", "del"):
                res.path_assertions += 1
                r = _safe((lambda: setattr(a, nm, 99)) if what == "set" else (lambda: delattr(a, nm)))
                if legacy:
                    continue    # legacy classes are plain objects; the immutability clause is about the dataclass nodes
                if r[0] != "exc" or r[1] not in ("FrozenInstanceError", "AttributeError"):
                    viol(f"frozen:{what}:{nm}", f"{what}attr({a_text}, {nm!r}) did not raise: {r}")
                    a = copy.deepcopy(ref)      # continue with an intact object
        if not legacy and (_safe(lambda: hash(a)) != ("val", h0) or _safe(lambda: bool(a == ref)) != ("val", True)):
            viol("frozen:changed", f"object changed after rebinding attempts: {a_text}")
    # histories chosen by solver-enumerated selectors, coverage-checked
    L = BOUNDS[tier]["history_length"]
    eq_pair = (insts[0], insts[1])
    ne_pair = (insts[0], insts[-1]) if len(insts) > 2 and not struct_eq_concrete(insts[0], insts[-1]) else None
    sels = [z3.Int(f"op{i}") for i in range(L)]
    pre = [z3.And(s >= 0, s < len(HIST_OPS)) for s in sels]
    legacy = "_is_expr_dataclass" not in cls.__dict__ and cls not in (PlainSub,)

    def harness():
        ops = [HIST_OPS[explore.realise(s)] for s in sels]
        bad = []
        for pair in (eq_pair, ne_pair):
            if pair is None:
                continue
            a, b = copy.deepcopy(pair[0]), copy.deepcopy(pair[1])
            exp = struct_eq_concrete(a, b)
            for o in ops:
                if legacy and o == "setattr_attempt":
                    continue
                a = _apply_op(o, a, b)
            got = _safe(lambda: (bool(a == b), bool(b == a), hash(a) == hash(b), b in {a}))
            want = ("val", (exp, exp, True, True)) if exp else None
            if exp and got != want:
                bad.append((ops, repr(pair[0]), got))
            if not exp and (got[0] != "val" or got[1][0] or got[1][1] or got[1][3]):
                bad.append((ops, repr(pair[0]), got))
            if not struct_eq_concrete(a, pair[0]):
                bad.append((ops, "operand changed", repr(a)))
        return ops, bad

    ex = Explorer(pre=pre, max_paths=len(HIST_OPS) ** L + 5, timeout_ms=10000)
    paths = list(ex.run(harness))
    for path in paths:
        res.path_assertions += 1
        if path.exc is not None:
            viol(f"history-exc:{type(path.exc).__name__}", f"history raised {path.exc!r}")
            continue
        ops, bad = path.result
        for bd in bad[:1]:
            viol(f"history:{'>'.join(ops)}", f"after {ops} on {bd[1]}: {bd[2]}")
    if not ex.coverage_unsat(paths):
        res.status = "inconclusive"
        res.note = "history coverage query not unsat"
    return H.finish(res, [ex.stats], Query())


SIBLINGS = [["Quotient", "FloorDiv", "Remainder", "QuotientBase"], ["LeftShift", "RightShift", "_ShiftOperator"],
            ["Min", "Max", "Sum", "Product", "BitwiseOr", "BitwiseXor", "BitwiseAnd", "LogicalOr", "LogicalAnd", "Slice"],
            ["Variable", "DotWildcard", "StarWildcard"], ["BitwiseNot", "LogicalNot"],
            ["Leaf", "Wildcard", "AlgebraicLeaf", "FunctionSymbol"]]


def check_siblings():
    res = ItemResult(item="siblings", sample={"family": "different classes, equal fields"})
    groups = [[getattr(p, n) for n in g] for g in SIBLINGS]
    groups += [[p.Variable, DecChild, PlainSub], [DecChild, LegacyOnDec], [LegacyOnDec, LegacyOnDecChild], [LegacyRoot, LegacyTwin], [DecChild, DecGrand]]
    for g in groups:
        for c1, c2 in itertools.permutations(g, 2):
            s1, s2 = field_spec(c1), field_spec(c2)
            n = min(len(s1), len(s2))
            if [k for _, k in s1[:n]] != [k for _, k in s2[:n]]:
                continue
            i1, i2 = concrete_instances(c1)[0], concrete_instances(c2)[0]
            res.path_assertions += 1
            r = _safe(lambda: (bool(i1 == i2), bool(i2 == i1), i2 in {i1}, {i1: 1}.get(i2)))
            if r != ("val", (False, False, False, None)):
                res.status = "violation"
                res.violations.append(Violation(
                    sig=f"siblings {c1.__name__}|{c2.__name__}", kind="class-ignored",
                    detail=f"{i1!r} vs {i2!r} (different classes): (==, reversed, in set, dict.get) = {r}",
                    replay={"a": repr(i1), "b": repr(i2)}))
    res.paths = 1
    return res


def check_userdefs():
    """user classes: copies / pickles keep all init args; decorated classes get eq/hash of their own fields"""
    res = ItemResult(item="userdefs", sample={"family": "user class hierarchies"})
    x = p.Variable("x")
    objs = [DecChild("n", "t"), DecGrand("n", "t", 3), OwnInit(x, "t"), OwnInit(x + 1), PlainSub("n"), LegacyOnDec("n", "t"), LegacyOnDecChild("n", "t"), LegacyRoot(x, "s"),
            LegacySub(x, "s", x + 1), LegacyTwin(x, "s")]
    for o in objs:
        for nm, fn in (("copy", copy.copy), ("deepcopy", copy.deepcopy),
                       ("pickle", lambda v: pickle.loads(pickle.dumps(v)))):
            for prehash in (False, True):
                res.path_assertions += 1
                r0 = _safe(lambda: copy.deepcopy(o) if nm != "deepcopy" else o)
                if r0[0] == "exc":
                    r = r0
                else:
                    o2 = r0[1]
                    r = _safe(lambda: (hash(o2) if prehash else None, fn(o2))[1])
                ok = r[0] == "val" and _safe(lambda: ("_hash_value" in vars(r[1]) if nm == "pickle" else False,
                                                      type(r[1]) is type(o), bool(r[1] == o), bool(o == r[1]),
                                                      hash(r[1]) == hash(o), struct_eq_concrete(r[1], o))) == (
                    "val", (False, True, True, True, True, True))
                if not ok:
                    res.status = "violation"
                    res.violations.append(Violation(
                        sig=f"userdef {type(o).__name__} {nm} prehash={prehash}", kind="userdef-copy",
                        detail=f"{nm}({o!r}) -> {_rep(r)}: copy not equal/hash-equal to the original or lost fields",
                        replay={"obj": repr(o), "op": nm}))
    # keyword-only / init=False fields take part in equality, hashing, copying and pickling like every other field
    k1, k2, k3 = KwOnlyFields(x, kwf=1), KwOnlyFields(x, kwf=2), KwOnlyFields(x, kwf=1)
    k4 = KwOnlyFields(x, kwf=1)
    object.__setattr__(k4, "nif", 8)
    for nm, a_, b_, want in (("kw_only field differs", k1, k2, False), ("all fields equal", k1, k3, True),
                             ("init=False field differs", k1, k4, False)):
        res.path_assertions += 1
        r = _safe(lambda: (bool(a_ == b_), bool(b_ == a_), (hash(a_) == hash(b_)) or not want, (b_ in {a_}) == want))
        if r != ("val", (want, want, True, True)):
            res.status = "violation"
            res.violations.append(Violation(sig=f"userdef KwOnlyFields {nm}", kind="userdef-fields",
                                            detail=f"{a_!r} vs {b_!r} ({nm}): (==, reversed, hash consistent, set membership) = {r}, "
                                                   f"expected equality {want}", replay={"a": repr(a_), "b": repr(b_)}))
    for nm, fn in (("copy", copy.copy), ("deepcopy", copy.deepcopy), ("pickle", lambda v: pickle.loads(pickle.dumps(v)))):
        for o in (k2, k4):
            res.path_assertions += 1
            r = _safe(lambda: (lambda c_: (c_.arg == o.arg, c_.kwf == o.kwf, c_.nif == o.nif, c_ == o))(fn(o)))
            if r != ("val", (True, True, True, True)):
                res.status = "violation"
                res.violations.append(Violation(sig=f"userdef KwOnlyFields {nm} kwf={o.kwf} nif={o.nif}", kind="userdef-copy",
                                                detail=f"{nm}(KwOnlyFields(x, kwf={o.kwf}) with nif={o.nif}): fields (arg, kwf, nif) kept / equal = {r}",
                                                replay={"op": nm}))
    res.paths = 1
    return res

# }}}


def check_item(item, tier):
    if item[0] == "sym":
        return check_sym(item, tier)
    if item[0] == "conc":
        return check_conc(item, tier)
    if item[0] == "siblings":
        return check_siblings()
    if item[0] == "userdefs":
        return check_userdefs()
    if item[0] == "twin":
        if item[1] == "drop_field":
            return check_sym(("sym", "pymbolic.primitives", "Lookup", 1, "none", (0, 0, 0)), tier, twin="drop_field")
        return check_sym(("sym", "pymbolic.primitives", "Variable", 0, "none", (0, 0, 0)), tier, twin="hash_as_eq")
    raise ValueError(item)
