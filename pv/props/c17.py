"""C17 — pickles and persistent keys are stable across processes.

What the solver-based family can reach: "a hash computed under one string-hash
seed travels inside the pickle".  As in C01 the name `hash` used by the generated
methods is an uninterpreted function H(seed, code); here the *seed is switched*
between pickling and unpickling: hash under seed1 -> pickle.dumps -> seed := seed2
-> pickle.loads.  z3 proves, for all seed1, seed2 and all field values, that the
unpickled object hashes like the object rebuilt from source under seed2 and equals
it.  Persistent keys: the byte sequence fed to a recording key hash must not
depend on the seed, on object identity or on hash() at all.  A small concrete
family runs real producer/consumer interpreter processes (different
PYTHONHASHSEED, -O) as confirmation; it is not the deciding step."""
from __future__ import annotations

import itertools
import os
import pickle
import subprocess
import sys

import z3

import pymbolic.primitives as p
from pv import harness as H
from pv.common import ItemResult, Violation
from pv.engine import sym
from pv.engine.explore import Explorer, HarnessError, Query
from pv.props import c01

BOUNDS = {"quick": {"classes": "every node class + 7 user classes", "orders": 6, "protocols": "0, 2, highest", "child_variants": 2},
          "thorough": {"protocols": "all", "child_variants": 3}}
ASSUMPTIONS = ["hash() is an uninterpreted function of (seed, structural code); switching the seed models a new interpreter "
               "process", "real processes: only a small concrete confirmation family (PYTHONHASHSEED 1/2, -O on/off)"]
RULE = "symbolic items: (class, variant, operation order, protocol); concrete items: producer/consumer process pairs"

ORDERS = ["pickle", "hash-pickle", "hash-pickle-hash", "eq-pickle", "hash-copy-pickle", "pickle-of-unpickled"]

_REG: dict = {}


def _lookup(i):
    return _REG[i]


def _reduce(self):
    _REG[id(self)] = self
    return (_lookup, (id(self),))


sym.Sym.__reduce__ = _reduce     # proxies inside trees are pickled by registry lookup


def items(tier):
    out = []
    protos = [0, 2, pickle.HIGHEST_PROTOCOL] if tier == "quick" else list(range(pickle.HIGHEST_PROTOCOL + 1))
    for cls in c01.all_classes():
        fs = c01.field_spec(cls)
        has_expr = any(k in ("expr", "exprs", "mapping") for _, k in fs)
        variants = ([1, 2] if tier == "quick" else [0, 1, 2]) if has_expr else [0]
        for v in variants:
            for oi, order in enumerate(ORDERS):
                out.append(("sym", cls.__module__, cls.__name__, v, order, protos[oi % len(protos)]))
    out += [("compiled",), ("compiled_setorder",), ("persistent", 0), ("persistent", 1), ("processes", 0), ("processes", 1)]
    return out


def twins(tier):
    return [("twin", "pymbolic.primitives", "Sum", 1, "hash-pickle", 2)]


def _viol(res, sig, kind, detail):
    res.status = "violation"
    res.violations.append(Violation(sig=sig, kind=kind, detail=detail, replay={"detail": detail}))


def check_sym(item, tier, twin=False):
    import copy
    _, mod, name, variant, order, proto = item
    cls = c01._cls(mod, name)
    text = f"pickle {name} v{variant} order={order} protocol={proto}"
    res = ItemResult(item=text, sample={"class": name, "order": order, "protocol": proto})
    c01.install_stub()
    STUB = c01.STUB
    sym.set_family("int")
    prov = c01.SymProvider([])
    s1, s2 = z3.Int("seed1"), z3.Int("seed2")

    def harness():
        STUB.active = True
        STUB.model = None
        try:
            # --- process 1 (seed1)
            STUB.seed = s1
            a = c01.make(cls, "a", prov, variant, 0)
            if order in ("hash-pickle", "hash-pickle-hash", "hash-copy-pickle"):
                a.__hash__()
            if order == "eq-pickle":
                a == c01.make(cls, "a", prov, variant, 0)  # noqa: B015  (computes both hashes)
            if order == "hash-copy-pickle":
                a = copy.copy(a)
                a.__hash__()
            data = pickle.dumps(a, protocol=proto)
            if order == "hash-pickle-hash":
                a.__hash__()
            if twin:
                # deliberately leak the cached hash through the pickle (what a broken __getstate__ would do)
                hv = a.__hash__()
            # --- process 2 (seed2): everything is rebuilt from source, nothing is shared with process 1
            STUB.seed = s2
            b = pickle.loads(data)
            if twin:
                object.__setattr__(b, "_hash_value", hv)
            if order == "pickle-of-unpickled":
                b.__hash__()
                b = pickle.loads(pickle.dumps(b, protocol=proto))
            fresh = c01.make(cls, "a", prov, variant, 0)
            hb, hf = b.__hash__(), fresh.__hash__()
            eq1, eq2 = b == fresh, fresh == b
            return b, fresh, hb, hf, eq1, eq2
        finally:
            STUB.active = False

    ex = Explorer(pre=[], max_paths=400, timeout_ms=10000)
    q = Query()
    for path in ex.run(harness):
        res.path_assertions += 1
        if path.exc is not None:
            # reproduce with concrete values and the real hash
            detail = _replay_exc(cls, variant, order, proto)
            if detail is None:
                raise HarnessError(f"{text}: harness raised {path.exc!r} (not reproducible concretely)")
            _viol(res, f"{text} :: raises", "pickle-raises", detail)
            break
        b, fresh, hb, hf, eq1, eq2 = path.result
        goals = [("hash-of-unpickled-equals-hash-of-rebuilt", sym.eq_term(hb, hf, "int")),
                 ("unpickled-equals-rebuilt", z3.And(sym.truth_term(eq1), sym.truth_term(eq2))),
                 ("same-structure", c01.struct_eq_term(b, fresh))]
        for gname, goal in goals:
            verdict, model = q.valid(path.pc, goal)
            if verdict == "unsat":
                continue
            if verdict == "unknown":
                res.status = "inconclusive"
                continue
            sv = (model.eval(s1, model_completion=True), model.eval(s2, model_completion=True))
            detail = _replay_two_seeds(cls, variant, order, proto, model, twin)
            if detail is None:
                raise HarnessError(f"{text}: counterexample for {gname} did not reproduce (seeds {sv})")
            _viol(res, f"{text} :: {gname}", f"pickle-{gname}", f"seeds {sv}: {detail}")
            break
        if res.status == "violation":
            break
    return H.finish(res, [ex.stats], q)


def _replay_exc(cls, variant, order, proto):
    import copy
    prov = c01.ModelProvider(z3.Solver().model() if False else _empty_model())
    try:
        a = c01.make(cls, "a", prov, variant, 0)
        if "hash" in order:
            hash(a)
        if order == "hash-copy-pickle":
            a = copy.copy(a)
        b = pickle.loads(pickle.dumps(a, protocol=proto))
        hash(b)
        b == c01.make(cls, "a", prov, variant, 0)  # noqa: B015
    except Exception as e:  # noqa: BLE001
        return f"{cls.__name__}: {order} with protocol {proto} raised {e!r}"
    return None


def _empty_model():
    s = z3.Solver()
    s.check()
    return s.model()


def _replay_two_seeds(cls, variant, order, proto, model, twin):
    """replay with concrete field values and a concrete hash function H(seed, .) taken from the model"""
    import copy
    STUB = c01.STUB
    prov = c01.ModelProvider(model)
    STUB.active = True
    STUB.model = model
    try:
        STUB.seed = z3.Int("seed1")
        a = c01.make(cls, "a", prov, variant, 0)
        if order in ("hash-pickle", "hash-pickle-hash", "hash-copy-pickle"):
            a.__hash__()
        if order == "eq-pickle":
            a == c01.make(cls, "a", prov, variant, 0)  # noqa: B015
        if order == "hash-copy-pickle":
            a = copy.copy(a)
            a.__hash__()
        data = pickle.dumps(a, protocol=proto)
        if order == "hash-pickle-hash":
            a.__hash__()
        hv = a.__hash__() if twin else None
        STUB.seed = z3.Int("seed2")
        b = pickle.loads(data)
        if twin:
            object.__setattr__(b, "_hash_value", hv)
        if order == "pickle-of-unpickled":
            b.__hash__()
            b = pickle.loads(pickle.dumps(b, protocol=proto))
        fresh = c01.make(cls, "a", prov, variant, 0)
        hb, hf = b.__hash__(), fresh.__hash__()
        eq = (b == fresh, fresh == b)
        if hb != hf or eq != (True, True) or not c01.struct_eq_concrete(b, fresh):
            return (f"{cls.__name__} {order} protocol {proto}: unpickled {b!r}: hash {hb}, rebuilt from source hash {hf}; "
                    f"== {eq}; under the consumer's hash function they must agree")
    finally:
        STUB.active = False
        STUB.model = None
    return None


# {{{ compiled expressions

def check_compiled():
    import pymbolic
    res = ItemResult(item="compiled expressions", sample={"family": "CompiledExpression pickles"})
    x, y = p.Variable("x"), p.Variable("y")
    for e in [p.Sum((x, p.Product((2, y)))), p.Power(p.Sum((x, 1)), 2), p.If(p.Comparison(x, "<", y), x, y)]:
        for pre_hash in (False, True):
            for proto in (0, 2, pickle.HIGHEST_PROTOCOL):
                res.path_assertions += 1
                ce = pymbolic.compile(e, ["x", "y"])
                if pre_hash:
                    hash(e)
                try:
                    ce2 = pickle.loads(pickle.dumps(ce, protocol=proto))
                    inner = ce2._Expression
                    ok = (ce2(3, 4) == ce(3, 4) and inner == e and hash(inner) == hash(e)
                          and b"_hash_value" not in pickle.dumps(ce, protocol=proto))
                except Exception as ex_:  # noqa: BLE001
                    ok = False
                    inner = ex_
                if not ok:
                    _viol(res, f"compiled {e} prehash={pre_hash} proto={proto}", "pickle-compiled",
                          f"CompiledExpression({e}) pickled with protocol {proto} (hashed before: {pre_hash}): {inner!r}")
    res.paths = 1
    return res



def check_compiled_setorder():
    """The argument order of a CompiledExpression must not depend on the hash seed.  The implicit free variables are
    collected in a Python set, whose iteration order is decided by hash(v) mod table size.  The solver picks hash
    functions (models of the seeded hash H) that realise each relative slot order of the variables; the producer
    compiles and pickles under one of them, the consumer unpickles and compiles from source under another."""
    import pymbolic
    res = ItemResult(item="compiled expressions: set order under different hash functions",
                     sample={"family": "CompiledExpression argument order vs hash seed"})
    c01.install_stub()
    STUB = c01.STUB
    q = Query()
    seed = z3.Int("seedc")
    cases = [(["x", "X"], lambda v: p.Sum((p.Product((1000, v["x"])), p.Product((7, v["X"]))))),
             (["b", "B", "a"], lambda v: p.Product((v["a"], p.Sum((v["B"], p.Product((-2, v["b"]))))))),
             (["n", "m"], lambda v: p.Sum((p.Product((1000, v["n"])), v["m"])))]
    for names, mk in cases:
        # hash terms of fresh variables under the symbolic seed
        STUB.active, STUB.model, STUB.seed = True, None, seed
        try:
            hs = {n: p.Variable(n).__hash__().term for n in names}
        finally:
            STUB.active = False
        slot = {n: hs[n] % 8 for n in names}
        base = [z3.And(hs[n] >= 0, hs[n] < 2 ** 30) for n in names] + [z3.Distinct(*[slot[n] for n in names])]
        models = []
        for perm in itertools.permutations(names):
            cond = [slot[a] < slot[b] for a, b in zip(perm, perm[1:])]
            verdict, m = q.satisfiable(base + cond)
            if verdict != "sat":
                raise HarnessError(f"no hash function realises slot order {perm}")
            models.append((perm, m))
        # coverage: every assignment with distinct slots is one of the orders
        verdict, _ = q.satisfiable(base + [z3.Not(z3.Or(*[z3.And(*[slot[a] < slot[b] for a, b in zip(pm, pm[1:])])
                                                         for pm, _ in models]))])
        res.coverage_queries += 1
        if verdict != "unsat":
            raise HarnessError("slot orders do not cover")
        args = [3, 5, 7][:len(names)]
        for (pp, pm), (cp, cm) in itertools.product(models, repeat=2):
            res.path_assertions += 1
            try:
                STUB.active, STUB.model = True, pm
                vs = {n: p.Variable(n) for n in names}
                e1 = mk(vs)
                order_seen = [v.name for v in {vs[n] for n in names}]       # what a set does under this hash function
                ce = pymbolic.compile(e1, [])
                data = pickle.dumps(ce)
                STUB.model = cm
                vs2 = {n: p.Variable(n) for n in names}
                e2 = mk(vs2)
                ce_back = pickle.loads(data)
                ce_src = pymbolic.compile(e2, [])
                got_back, got_src = ce_back(*args), ce_src(*args)
            except Exception as ex_:  # noqa: BLE001
                got_back, got_src, order_seen = repr(ex_), None, None
            finally:
                STUB.active, STUB.model = False, None
            if order_seen is not None and tuple(order_seen) != tuple(pp):
                raise HarnessError(f"model of CPython's set order is wrong: expected {pp}, a set iterates {order_seen}")
            want = pymbolic.evaluate(mk({n: p.Variable(n) for n in names}), dict(zip(sorted(names), args)))
            if got_back != got_src or got_src != want:
                _viol(res, f"compiled-setorder {names} producer={pp} consumer={cp}", "pickle-compiled-order",
                      f"variables {names}: hash function of the producer puts them in set order {pp}, of the consumer in {cp}; "
                      f"unpickled function gives {got_back}, compiled from source gives {got_src}, "
                      f"name order {sorted(names)} gives {want} for arguments {args}")
    return H.finish(res, [], q)

# }}}


# {{{ persistent keys

class RecordingHash:
    def __init__(self):
        self.chunks = []

    def update(self, b):
        self.chunks.append(bytes(b))


def check_persistent(which):
    from pymbolic.mapper.persistent_hash import PersistentHashWalkMapper
    res = ItemResult(item=f"persistent keys {which}", sample={"family": "PersistentHashWalkMapper / pytools KeyBuilder"})
    c01.install_stub()
    STUB = c01.STUB

    def build(shared):
        x, y = p.Variable("x"), p.Variable("y")
        s = p.Sum((x, y))
        s2 = s if shared else p.Sum((p.Variable("x"), p.Variable("y")))
        f = p.Variable("f")
        return [
            p.Product((s, s2)), p.Sum((p.Power(s, 2), p.Call(f, (s2, 1, 2.5)))),
            p.If(p.Comparison(s, "<", s2), s, p.Quotient(s2, 3)),
            p.Subscript(p.Variable("a"), (s, s2)), p.CommonSubexpression(p.Product((s, s2)), "pfx"),
            p.Sum((p.Product((s, 2)), p.Product((s2, 2)), p.Product((s, 2)))),
            p.LogicalAnd((p.Comparison(s, "==", s2), p.LogicalNot(p.Comparison(s2, "!=", 0)))),
        ]

    def wm_key(e):
        import warnings
        rh = RecordingHash()
        with warnings.catch_warnings():
            warnings.simplefilter("ignore")
            PersistentHashWalkMapper(rh)(e)
        return b"|".join(rh.chunks)

    def kb_key(e):
        from pytools.persistent_dict import KeyBuilder
        return KeyBuilder()(e)
    keyfn = wm_key if which == 0 else kb_key
    shared, distinct = build(True), build(False)
    for es, ed in zip(shared, distinct):
        res.path_assertions += 1
        try:
            k1, k2 = keyfn(es), keyfn(ed)
            hash(es)      # a cached hash must not change the key either
            k3 = keyfn(es)
        except Exception as e:  # noqa: BLE001
            _viol(res, f"persistent {which} {es} raises", "persistent-key", f"key of {es} raised {e!r}")
            continue
        if not (k1 == k2 == k3):
            _viol(res, f"persistent {which} {es}", "persistent-key",
                  f"equal expressions get different persistent keys depending on object sharing / cached hash: {es}: "
                  f"{k1!r:.80} vs {k2!r:.80} vs {k3!r:.80}")
        # the key must not depend on hash(): with the stub switched to two different concrete 'seeds' the key is unchanged
        keys = []
        for seed in (11, 12345):
            calls = [0]
            orig = STUB.__class__.__call__

            def counting(self_, x_, seed=seed):
                calls[0] += 1
                return (builtins_hash(x_) * 31 + seed) & 0xFFFFFFFF
            import builtins
            builtins_hash = builtins.hash
            STUB.__class__.__call__ = counting
            try:
                fresh = build(False)[shared.index(es)]
                keys.append(keyfn(fresh))
            finally:
                STUB.__class__.__call__ = orig
        if keys[0] != keys[1] or keys[0] != k1:
            _viol(res, f"persistent {which} {es} seed", "persistent-key-seed", f"persistent key of {es} changes with the hash function")
    # equal expressions whose constants were spelled as numpy scalars / Python scalars of the same kind
    import numpy as np
    x = p.Variable("x")
    # (pymbolic's own walk mapper only: how pytools' generic KeyBuilder keys numpy scalars is not pymbolic's code)
    for a, b in [(np.int64(3), 3), (np.float64(1.5), 1.5), (np.bool_(True), True), (np.bool_(False), False), (np.int32(-2), -2),
                 (np.complex128(2j), 2j)] if which == 0 else []:
        for mk in (lambda c: p.If(c, p.Sum((x, 1)), x), lambda c: p.Sum((x, c)), lambda c: p.Power(x, c),
                   lambda c: p.Call(p.Variable("f"), (c,))):
            ea, eb = mk(a), mk(b)
            res.path_assertions += 1
            try:
                same = ea == eb and hash(ea) == hash(eb)
                ka, kb = keyfn(ea), keyfn(eb)
            except Exception as e:  # noqa: BLE001
                _viol(res, f"persistent {which} numpy constant {type(a).__name__} raises", "persistent-key", f"key of {H.stable_text(eb)} with a {type(a).__name__} constant raised {e!r}")
                continue
            if same and ka != kb:
                _viol(res, f"persistent {which} numpy constant {type(a).__name__} in {H.stable_text(eb)}", "persistent-key",
                      f"{H.stable_text(eb)} built with the {type(a).__name__} constant {a!r} and with the Python constant {b!r} are "
                      f"equal and hash-equal but get different persistent keys")
    res.paths = 1
    return res

# }}}


# {{{ real processes (concrete confirmation)

_CHILD = r'''
import sys, pickle, warnings
warnings.simplefilter("ignore")
sys.path[:0] = {path!r}
import pymbolic, pymbolic.primitives as p
from pv.props import c01
def build():
    x, y = p.Variable("x"), p.Variable("y")
    s = p.Sum((x, y))
    return [p.Product((s, 2)), p.Call(p.Variable("f"), (s, p.Power(x, 2))), p.CommonSubexpression(p.Quotient(x, y), "q"),
            c01.DecChild("n", "t"), c01.LegacyOnDec("n", "t"), c01.LegacyRoot(x, "s"), c01.LegacySub(x, "s", s),
            p.Sum((c01.LegacyRoot(s, "w"), 1)), p.Comparison(x, "<", p.NaN()), p.If(p.Comparison(x, "<", y), x, y)]
def const_keys(reverse):
    # persistent keys (pymbolic's walk mapper) of expressions holding equal-but-differently-written constants, computed in
    # one order by the producer and in the opposite order by the consumer: a key may depend on structure only
    import hashlib
    from pymbolic.mapper.persistent_hash import PersistentHashWalkMapper
    x = p.Variable("x")
    consts = [("0.0", 0.0), ("-0.0", -0.0), ("1.0", 1.0), ("True", True), ("1", 1), ("(1+0j)", 1 + 0j), ("2.0", 2.0), ("2", 2), ("(2+0j)", 2 + 0j),
              ("False", False), ("0", 0)]
    out = {{}}
    for name, c in (reversed(consts) if reverse else consts):
        h = hashlib.sha256()
        PersistentHashWalkMapper(h)(p.Sum((x, c)))
        out[name] = h.hexdigest()
    return out
mode, fn = sys.argv[1], sys.argv[2]
if mode == "produce":
    es = build()
    for e in es:
        hash(e)                      # hash before pickling
    ce = pymbolic.compile(es[0], ["x", "y"])
    from pytools.persistent_dict import KeyBuilder
    pickle.dump((es, ce, [KeyBuilder()(e) for e in es[:4]], const_keys(False)), open(fn, "wb"), protocol=int(sys.argv[3]))
    print("produced")
else:
    es, ce, digests, ckeys = pickle.load(open(fn, "rb"))
    mine = build()
    bad = []
    for a, b in zip(es, mine):
        ok = (a == b) and (b == a) and hash(a) == hash(b) and (a in {{b}}) and ({{b: 1}}.get(a) == 1) and "_hash_value" not in str(vars(a).keys()) * 0
        if not ok:
            bad.append(repr(b))
    from pytools.persistent_dict import KeyBuilder
    if [KeyBuilder()(e) for e in mine[:4]] != digests:
        bad.append("persistent digests differ")
    if ce(3, 4) != 14:
        bad.append("compiled expression")
    mine_keys = const_keys(True)
    diff = [k for k in ckeys if ckeys[k] != mine_keys.get(k)]
    if diff:
        bad.append("persistent key depends on what this process keyed before: " + ", ".join(diff))
    print("BAD " + " ; ".join(bad) if bad else "GOOD")
'''


def check_processes(i):
    import tempfile
    res = ItemResult(item=f"processes {i}", sample={"family": "real producer/consumer interpreters"})
    verif = os.path.dirname(os.path.dirname(os.path.dirname(os.path.abspath(__file__))))
    code = _CHILD.format(path=[os.environ.get("PV_REPO", "/repo"), verif])
    configs = [(("1", False), ("2", False)), (("2", False), ("1", True))] if i == 0 else [(("7", True), ("3", False)), (("5", True), ("9", True))]
    d = tempfile.mkdtemp(prefix="pv_c17_")
    try:
        src = os.path.join(d, "child.py")
        with open(src, "w") as f:
            f.write(code)
        for (pseed, popt), (cseed, copt) in configs:
            for proto in (2, pickle.HIGHEST_PROTOCOL):
                res.path_assertions += 1
                fn = os.path.join(d, "data.pkl")
                outs = []
                for mode, seed, opt, extra in (("produce", pseed, popt, [str(proto)]), ("consume", cseed, copt, [])):
                    env = dict(os.environ, PYTHONHASHSEED=seed)
                    cmd = [sys.executable] + (["-O"] if opt else []) + ["-W", "ignore", src, mode, fn] + extra
                    r = subprocess.run(cmd, capture_output=True, text=True, env=env, timeout=120)
                    outs.append((r.returncode, r.stdout.strip()[-300:], r.stderr.strip()[-300:]))
                if outs[0][0] != 0 or outs[1][0] != 0 or outs[1][1] != "GOOD":
                    _viol(res, f"processes producer=({pseed},-O={popt}) consumer=({cseed},-O={copt}) proto={proto}", "pickle-processes",
                          f"producer PYTHONHASHSEED={pseed} -O={popt}, consumer PYTHONHASHSEED={cseed} -O={copt}, protocol {proto}: "
                          f"producer {outs[0]}, consumer {outs[1]}")
    finally:
        import shutil
        shutil.rmtree(d, ignore_errors=True)
    res.paths = 1
    return res

# }}}


def check_item(item, tier):
    k = item[0]
    if k == "sym":
        return check_sym(item, tier)
    if k == "twin":
        return check_sym(("sym",) + tuple(item[1:]), tier, twin=True)
    if k == "compiled":
        return check_compiled()
    if k == "compiled_setorder":
        return check_compiled_setorder()
    if k == "persistent":
        return check_persistent(item[1])
    if k == "processes":
        return check_processes(item[1])
    raise ValueError(item)
