"""C19 — exact-arithmetic helpers and number types compute what they claim.

integer_power on a symbolic base (integers and 2x2 symbolic matrices), exponent a
small-domain symbolic integer realised by the solver; extended Euclid / gcd / lcm
on a symbolic pair in a box (divisors realised); fft / ifft / sym_fft on vectors
of symbolic complex numbers (pairs of reals) inside numpy object arrays, compared
with the DFT definition within a tolerance by linear real arithmetic; Polynomial
objects with symbolic integer coefficients at a symbolic point; the exact quotient
node on symbolic integers."""
from __future__ import annotations

import cmath
import itertools
import math
from fractions import Fraction

import numpy as np
import z3

import pymbolic.primitives as p
from pv import harness as H
from pv.common import ItemResult, Violation
from pv.engine import explore, sym
from pv.engine.explore import Explorer, HarnessError, Query
from pv.props.c03 import Mat2, mat_eq_term

BOUNDS = {"quick": {"integer_power": "n in 0..40 (ints), 0..10 (2x2 matrices), base unbounded", "euclid": "pair in [-12, 12]^2",
                    "fft_lengths": "1..12", "fft_tolerance": "n * 1e-9 on the unit box", "polynomials": "degree <= 3, symbolic "
                    "integer coefficients and point", "max_paths": 2000},
          "thorough": {"integer_power": "n in 0..64 / 0..16", "euclid": "[-40, 40]^2", "fft_lengths": "1..32", "max_paths": 20000}}
ASSUMPTIONS = ["reals stand in for floats in the FFT: float twiddle factors are exact binary rationals and arithmetic on them "
               "is exact", "find_factors' use of sqrt is concrete (lengths are concrete)"]
RULE = "items per helper and size; values symbolic"


def _viol(res, sig, kind, detail):
    res.status = "violation"
    res.violations.append(Violation(sig=sig, kind=kind, detail=detail, replay={"detail": detail}))


# {{{ integer_power

def check_ipow(kind, tier, twin=False):
    from pymbolic.algorithm import integer_power
    sym.set_family("int")
    nmax = {"int": 40 if tier == "quick" else 64, "mat": 10 if tier == "quick" else 16}[kind]
    res = ItemResult(item=f"integer_power {kind} n<= {nmax}", sample={"base": kind, "n_max": nmax})
    nv = z3.Int("n")
    pre = [nv >= -2, nv <= nmax]
    if kind == "int":
        x = sym.var("x", "int")[0]
        one = 1
    else:
        x = Mat2(*[sym.var(f"x{i}", "int")[0] for i in range(4)])
        one = Mat2(1, 0, 0, 1)

    def harness():
        n = explore.realise(nv)
        try:
            r = integer_power(x, n, one) if kind == "mat" else integer_power(x, n)
        except RuntimeError as e:
            return n, ("refused", e)
        return n, ("val", r)

    ex = Explorer(pre=pre, max_paths=nmax + 10, timeout_ms=20000)
    q = Query(timeout_ms=20000)
    paths = list(ex.run(harness))
    for path in paths:
        res.path_assertions += 1
        if path.exc is not None:
            _viol(res, f"integer_power {kind} raises", "ipow-raises", f"raised {path.exc!r}")
            continue
        n, r = path.result
        if n < 0:
            if r[0] != "refused":
                _viol(res, f"integer_power {kind} n={n}", "ipow-negative", f"integer_power(x, {n}) returned {r[1]!r} instead of refusing")
            continue
        if r[0] == "refused":
            _viol(res, f"integer_power {kind} n={n}", "ipow-refuses", f"integer_power(x, {n}) raised {r[1]!r}")
            continue
        exp = one
        for _ in range(n + (1 if twin and n == 3 else 0)):
            exp = exp * x
        if kind == "int":
            goal = sym.eq_term(r[1], exp, "int")
        else:
            if not isinstance(r[1], Mat2):
                _viol(res, f"integer_power mat n={n}", "ipow-value", f"integer_power(M, {n}) returned {r[1]!r}, not a matrix")
                continue
            goal = mat_eq_term(r[1], exp)
        verdict, model = q.valid(path.pc, goal)
        if verdict == "unsat":
            continue
        if verdict == "unknown":
            res.status = "inconclusive"
            res.note = f"n={n}: solver unknown"
            continue
        if kind == "int":
            xv = sym.model_value(model, x)
            got = integer_power(xv, n)
            want = xv ** (n + (1 if twin and n == 3 else 0))
        else:
            xv = Mat2(*[sym.model_value(model, e) for e in x.e])
            got = integer_power(xv, n, Mat2(1, 0, 0, 1)).e
            want = Mat2(1, 0, 0, 1)
            for _ in range(n):
                want = want * xv
            want = want.e
        if got == want:
            raise HarnessError(f"integer_power counterexample did not reproduce: {kind} n={n} x={xv}")
        _viol(res, f"integer_power {kind} n={n}", "ipow-value", f"integer_power({xv}, {n}) = {got}, expected {want}")
    if not ex.coverage_unsat(paths):
        res.status = "inconclusive"
        res.note = "exponent coverage not unsat"
    return H.finish(res, [ex.stats], q)

# }}}


# {{{ euclid

def check_euclid(tier, twin=False):
    from pymbolic.algorithm import extended_euclidean, gcd, lcm
    sym.set_family("int")
    B = 12 if tier == "quick" else 40
    res = ItemResult(item=f"extended_euclidean box {B}", sample={"box": B})
    qv, rv = z3.Int("q"), z3.Int("r")
    pre = [qv >= -B, qv <= B, rv >= -B, rv <= B]
    q0, r0 = sym.SymInt(qv), sym.SymInt(rv)

    def harness():
        g, a, b = extended_euclidean(q0, r0)
        out = {"g": g, "a": a, "b": b}
        if bool(q0 != 0) or bool(r0 != 0):
            out["gcd"] = gcd(q0, r0)
            out["lcm"] = lcm(q0, r0) if (bool(q0 != 0) and bool(r0 != 0)) else None
        return out

    old = sym.REALISE_DIVISORS[0]
    sym.REALISE_DIVISORS[0] = True
    ex = Explorer(pre=pre, max_paths=BOUNDS[tier]["max_paths"], timeout_ms=20000)
    qq = Query(timeout_ms=20000)
    try:
        for path in ex.run(harness):
            res.path_assertions += 1
            if path.exc is not None:
                model = H.path_model([], path.pc)
                vq, vr = model.eval(qv, model_completion=True).as_long(), model.eval(rv, model_completion=True).as_long()
                try:
                    extended_euclidean(vq, vr)
                    if vq or vr:
                        gcd(vq, vr)
                        if vq and vr:
                            lcm(vq, vr)
                    raise HarnessError(f"euclid: harness raised {path.exc!r}, not reproducible for ({vq}, {vr})")
                except HarnessError:
                    raise
                except Exception as e:  # noqa: BLE001
                    _viol(res, f"euclid raises ({vq},{vr})", "euclid-raises", f"extended_euclidean/gcd/lcm({vq}, {vr}) raised {e!r}")
                    break
            o = path.result
            g, a, b = (sym.to_term(o[k], "int") for k in ("g", "a", "b"))
            goals = [("bezout", g == a * qv + b * rv + (1 if twin else 0))]
            nz = z3.Or(qv != 0, rv != 0)
            gabs = z3.If(g >= 0, g, -g)
            divs = [z3.Implies(z3.And(qv % d == 0, rv % d == 0), gabs % d == 0) for d in range(1, B + 1)]
            goals.append(("divides-and-greatest", z3.Implies(nz, z3.And(g != 0, qv % gabs == 0, rv % gabs == 0, *divs))))
            goals.append(("zero-pair", z3.Implies(z3.Not(nz), g == 0)))
            if "gcd" in o:
                goals.append(("gcd-consistent", sym.to_term(o["gcd"], "int") == g))
            if o.get("lcm") is not None:
                lt = sym.to_term(o["lcm"], "int")
                prod = qv * rv
                goals.append(("lcm", lt * g == z3.If(prod >= 0, prod, -prod)))
            for name, goal in goals:
                verdict, model = qq.valid(path.pc, goal)
                if verdict == "unsat":
                    continue
                if verdict == "unknown":
                    res.status = "inconclusive"
                    res.note = f"{name}: solver unknown"
                    continue
                vq, vr = model.eval(qv, model_completion=True).as_long(), model.eval(rv, model_completion=True).as_long()
                cg, ca, cb = extended_euclidean(vq, vr)
                bad = {"bezout": cg != ca * vq + cb * vr + (1 if twin else 0),
                       "divides-and-greatest": (vq or vr) and abs(cg) != math.gcd(vq, vr),
                       "zero-pair": not (vq or vr) and cg != 0,
                       "gcd-consistent": (vq or vr) and gcd(vq, vr) != cg,
                       "lcm": bool(vq and vr) and lcm(vq, vr) * cg != abs(vq * vr)}[name]
                if not bad:
                    raise HarnessError(f"euclid {name} counterexample did not reproduce for ({vq}, {vr})")
                _viol(res, f"euclid {name} ({vq},{vr})", f"euclid-{name}",
                      f"extended_euclidean({vq}, {vr}) = {(cg, ca, cb)}: clause {name} fails (gcd={math.gcd(vq, vr)})")
                return H.finish(res, [ex.stats], qq)
    finally:
        sym.REALISE_DIVISORS[0] = old
    if not ex.complete and res.status == "ok":
        res.status = "inconclusive"
        res.note = "; ".join(ex.inconclusive_reasons[:1])
    return H.finish(res, [ex.stats], qq)

# }}}


# {{{ FFT on symbolic complex numbers

def _rv(v):
    fr = Fraction(v)
    return z3.RealVal(f"{fr.numerator}/{fr.denominator}")


class SymCplx:
    """complex number as a pair of z3 Real terms; constants are float-exact rationals"""
    __hash__ = None
    __array_priority__ = 1000

    def __init__(self, re, im):
        self.re, self.im = re, im

    @staticmethod
    def lift(o):
        if isinstance(o, SymCplx):
            return o
        if isinstance(o, (complex, np.complexfloating)):
            return SymCplx(_rv(float(o.real)), _rv(float(o.imag)))
        if isinstance(o, (int, float, np.floating, np.integer)):
            return SymCplx(_rv(float(o)) if isinstance(o, (float, np.floating)) else z3.RealVal(int(o)), z3.RealVal(0))
        if isinstance(o, Fraction):
            return SymCplx(_rv(o), z3.RealVal(0))
        return None

    def __add__(self, o):
        o = SymCplx.lift(o)
        return NotImplemented if o is None else SymCplx(self.re + o.re, self.im + o.im)
    __radd__ = __add__

    def __sub__(self, o):
        o = SymCplx.lift(o)
        return NotImplemented if o is None else SymCplx(self.re - o.re, self.im - o.im)

    def __rsub__(self, o):
        o = SymCplx.lift(o)
        return NotImplemented if o is None else SymCplx(o.re - self.re, o.im - self.im)

    def __mul__(self, o):
        o = SymCplx.lift(o)
        if o is None:
            return NotImplemented
        return SymCplx(z3.simplify(self.re * o.re - self.im * o.im), z3.simplify(self.re * o.im + self.im * o.re))
    __rmul__ = __mul__

    def __neg__(self):
        return SymCplx(-self.re, -self.im)


def _dft(xs, sign=1):
    n = len(xs)
    out = []
    for k in range(n):
        acc = SymCplx(z3.RealVal(0), z3.RealVal(0))
        for j in range(n):
            w = cmath.exp(-2j * cmath.pi * sign * k * j / n)
            acc = acc + xs[j] * w
        out.append(acc)
    return out


def check_fft(n, which, tier, twin=False):
    from pymbolic.algorithm import fft, ifft, sym_fft
    res = ItemResult(item=f"{which} n={n}", sample={"transform": which, "length": n})
    xs = [SymCplx(z3.Real(f"re{j}"), z3.Real(f"im{j}")) for j in range(n)]
    box = [z3.And(x.re >= -1, x.re <= 1, x.im >= -1, x.im <= 1) for x in xs]
    tol = _rv(n * 1e-9)
    arr = np.empty(n, dtype=object)
    for j in range(n):
        arr[j] = xs[j]
    import warnings
    warnings.simplefilter("ignore")
    try:
        sgn = -1 if which.endswith("sign=-1") else 1
        if which.startswith("fft"):
            got = list(fft(arr, sign=sgn, complex_dtype=np.complex128))
            exp = _dft(xs, sgn)
        elif which == "ifft":
            got = list(ifft(arr, complex_dtype=np.complex128))
            exp = [SymCplx(c.re / n, c.im / n) for c in _dft(xs, -1)]
        elif which == "ifft(fft)":
            got = list(ifft(fft(arr, complex_dtype=np.complex128), complex_dtype=np.complex128))
            exp = xs
        else:
            from pymbolic.mapper.evaluator import EvaluationMapper
            vs = np.empty(n, dtype=object)
            for j in range(n):
                vs[j] = p.Variable(f"x{j}")
            sexprs = sym_fft(vs, sign=sgn)
            env = {f"x{j}": xs[j] for j in range(n)}
            ev = EvaluationMapper(env)
            got = [ev(e) if isinstance(e, p.Expression) else SymCplx.lift(e) for e in sexprs]
            exp = _dft(xs, sgn)
    except Exception as e:  # noqa: BLE001
        _viol(res, f"{which} n={n} raises", "fft-raises", f"{which} of length {n} raised {e!r}")
        return res
    if twin:
        exp = list(reversed(exp))
    q = Query(timeout_ms=30000)
    res.paths = 1
    for k in range(n):
        g = SymCplx.lift(got[k])
        res.path_assertions += 1
        if g is None:
            _viol(res, f"{which} n={n} k={k} type", "fft-value", f"output {k} is {got[k]!r}")
            break
        dre, dim_ = g.re - exp[k].re, g.im - exp[k].im
        goal = z3.And(dre <= tol, -dre <= tol, dim_ <= tol, -dim_ <= tol)
        verdict, model = q.valid(box, goal)
        if verdict == "unsat":
            continue
        if verdict == "unknown":
            res.status = "inconclusive"
            res.note = f"k={k}: solver unknown"
            continue
        # replay with plain complex numbers
        vals = [complex(float(sym.term_value(model.eval(x.re, model_completion=True))),
                        float(sym.term_value(model.eval(x.im, model_completion=True)))) for x in xs]
        carr = np.array(vals, dtype=np.complex128)
        if which.startswith("fft"):
            cg = fft(carr, sign=sgn, complex_dtype=np.complex128)
            ce = [sum(vals[j] * cmath.exp(-2j * cmath.pi * sgn * kk * j / n) for j in range(n)) for kk in range(n)]
        elif which == "ifft":
            cg = ifft(carr, complex_dtype=np.complex128)
            ce = [sum(vals[j] * cmath.exp(2j * cmath.pi * kk * j / n) for j in range(n)) / n for kk in range(n)]
        elif which == "ifft(fft)":
            cg = ifft(fft(carr, complex_dtype=np.complex128), complex_dtype=np.complex128)
            ce = vals
        else:
            from pymbolic import evaluate
            cg = [evaluate(e, {f"x{j}": vals[j] for j in range(n)}) if isinstance(e, p.Expression) else e for e in sexprs]
            ce = [sum(vals[j] * cmath.exp(-2j * cmath.pi * sgn * kk * j / n) for j in range(n)) for kk in range(n)]
        if twin:
            ce = list(reversed(ce))
        if abs(complex(cg[k]) - ce[k]) <= n * 1e-9:
            raise HarnessError(f"{which} n={n} k={k} counterexample did not reproduce: {cg[k]} vs {ce[k]}")
        _viol(res, f"{which} n={n} k={k}", "fft-value", f"{which}, length {n}, input {vals}: output[{k}] = {cg[k]}, definition gives {ce[k]}")
        break
    return H.finish(res, [], q)

# }}}


# {{{ polynomials and the quotient node

def _poly(base, exps, tag):
    from pymbolic.polynomial import Polynomial
    cs = [sym.var(f"{tag}{e}", "int")[0] for e in exps]
    return Polynomial(base, tuple(zip(exps, cs))), cs


def _pval(poly, xv):
    """schoolbook evaluation, independent of the evaluator's Horner scheme"""
    from pymbolic.polynomial import Polynomial
    if not isinstance(poly, Polynomial):
        return poly
    acc = 0
    for e, c in poly.data:
        acc = acc + c * xv ** e
    return acc


def _well_formed(poly):
    from pymbolic.polynomial import Polynomial
    if not isinstance(poly, Polynomial):
        return True
    exps = [e for e, _ in poly.data]
    return exps == sorted(set(exps))


POLY_SHAPES = [((0, 1), (0, 1)), ((0, 1, 2), (1, 2)), ((1, 3), (0, 2)), ((0, 2), (0, 2)), ((0, 1, 2), (0, 1, 2)), ((2,), (0, 1)),
               ((0, 1, 3), (1,)), ((0,), (0, 3)), ((1, 2, 3), (0, 1))]


def check_poly(i, tier, twin=False):
    from pymbolic.mapper.evaluator import EvaluationMapper
    from pymbolic.polynomial import Polynomial
    sym.set_family("int")
    ea, eb = POLY_SHAPES[i]
    res = ItemResult(item=f"polynomials exps {ea} {eb}", sample={"p_exponents": ea, "q_exponents": eb})
    X = p.Variable("X")
    xv = sym.var("xv", "int")[0]
    q = Query(timeout_ms=20000, rlimit=200000000)
    stats = []
    ops = {
        "add": lambda a, b: a + b, "sub": lambda a, b: a - b, "mul": lambda a, b: a * b,
        "rsub-const": lambda a, b: 5 - a, "radd-const": lambda a, b: 5 + a, "rmul-const": lambda a, b: 3 * a,
        "neg": lambda a, b: -a, "pow0": lambda a, b: a ** 0, "pow2": lambda a, b: a ** 2, "pow3": lambda a, b: a ** 3,
        "mul-mul": lambda a, b: (a * b) * a, "sq-minus": lambda a, b: a * a - b * b, "diffprod": lambda a, b: (a + b) * (a - b),
    }
    vops = {
        "add": lambda a, b: a + b, "sub": lambda a, b: a - b, "mul": lambda a, b: a * b,
        "rsub-const": lambda a, b: 5 - a, "radd-const": lambda a, b: 5 + a, "rmul-const": lambda a, b: 3 * a,
        "neg": lambda a, b: -a, "pow0": lambda a, b: 1, "pow2": lambda a, b: a * a, "pow3": lambda a, b: a * a * a,
        "mul-mul": lambda a, b: a * b * a, "sq-minus": lambda a, b: a * a - b * b, "diffprod": lambda a, b: a * a - b * b,
    }
    nonlinear_in_a = {"pow2", "pow3", "mul-mul", "sq-minus", "diffprod"}
    for name, fn in ops.items():
        def harness(fn=fn, name=name):
            from pymbolic.polynomial import Polynomial as _P
            if name in nonlinear_in_a:
                # powers/products of p with itself: concrete coefficients (zero-tests on symbolic products of
                # coefficients are nonlinear integer problems), the point stays symbolic
                pa = _P(X, tuple((e, (-1) ** k * (k + 2)) for k, e in enumerate(ea)))
            else:
                pa, ca = _poly(X, ea, "a")
            if name in ("mul", "mul-mul", "sq-minus", "diffprod"):
                pb = _P(X, tuple((e, (-1) ** (k + 1) * (k + 1)) for k, e in enumerate(eb)))
            else:
                pb, cb = _poly(X, eb, "b")
            r = fn(pa, pb)
            ev = EvaluationMapper({"X": xv})(r) if isinstance(r, p.Expression) else r
            return pa, pb, r, ev
        ex = Explorer(pre=[], max_paths=BOUNDS[tier]["max_paths"], timeout_ms=20000, rlimit=200000000)
        for path in ex.run(harness):
            res.path_assertions += 1
            if path.exc is not None:
                _viol(res, f"poly {ea}{eb} {name} raises", f"poly-{name}", f"p {name} q raised {path.exc!r} (p exps {ea}, q exps {eb})")
                break
            pa, pb, r, ev = path.result
            want = vops[name](_pval(pa, xv), _pval(pb, xv)) + (1 if twin else 0)
            goals = [("value", sym.eq_term(_pval(r, xv), want, "int")), ("evaluator", sym.eq_term(ev, want, "int"))]
            bad = False
            for gname, goal in goals:
                verdict, model = q.valid(path.pc, goal)
                if verdict == "unsat":
                    continue
                if verdict == "unknown":
                    res.status = "inconclusive"
                    continue
                vals = {str(d): model[d] for d in model.decls()}
                _viol(res, f"poly {ea}{eb} {name} {gname}", f"poly-{name}",
                      f"polynomials p (exps {ea}), q (exps {eb}), {vals}: value of `{name}` (data {getattr(r, 'data', r)!r}) differs from the same "
                      "operation on the values")
                bad = True
                break
            if bad:
                break
            if not _well_formed(r):
                _viol(res, f"poly {ea}{eb} {name} form", f"poly-{name}", f"result {r!r} is not sorted / has duplicate exponents")
                break
        stats.append(ex.stats)
        if res.status == "violation":
            return H.finish(res, stats, q)
    # divmod: p = quot*d + rem
    def harness_dm():
        pa, ca = _poly(X, ea, "a")
        pb, cb = _poly(X, eb, "b")
        qt, rm = divmod(pa, pb)
        return pa, pb, qt, rm
    old = sym.REALISE_DIVISORS[0]
    sym.REALISE_DIVISORS[0] = True
    box = [z3.And(z3.Int(f"{t}{e}") >= -2, z3.Int(f"{t}{e}") <= 2) for t, es in (("a", ea), ("b", eb)) for e in es]
    ex = Explorer(pre=box + [z3.Int(f"b{eb[-1]}") != 0], max_paths=BOUNDS[tier]["max_paths"], timeout_ms=20000)
    try:
        for path in ex.run(harness_dm):
            res.path_assertions += 1
            if path.exc is not None:
                _viol(res, f"poly {ea}{eb} divmod raises", "poly-divmod", f"divmod(p, q) raised {path.exc!r} (exps {ea} / {eb})")
                break
            pa, pb, qt, rm = path.result
            goal = sym.eq_term(_pval(qt, xv) * _pval(pb, xv) + _pval(rm, xv), _pval(pa, xv), "int")
            verdict, model = q.valid(path.pc, goal)
            if verdict == "sat":
                vals = {str(d): model[d] for d in model.decls()}
                _viol(res, f"poly {ea}{eb} divmod", "poly-divmod", f"divmod(p, q): quot*q + rem != p for {vals}: quot {getattr(qt, 'data', qt)!r}, rem {getattr(rm, 'data', rm)!r}")
                break
    finally:
        sym.REALISE_DIVISORS[0] = old
    stats.append(ex.stats)
    return H.finish(res, stats, q)


def check_euclid_poly(tier):
    """extended_euclidean on pairs of integer polynomials in one variable: Bezout identity and divisibility, decided at a
    symbolic point; every call runs under an alarm (the routine has no termination argument over Z[x])"""
    import signal
    from pymbolic.algorithm import extended_euclidean
    from pymbolic.mapper.evaluator import EvaluationMapper
    from pymbolic.polynomial import Polynomial
    sym.set_family("int")
    res = ItemResult(item="extended_euclidean on polynomial pairs", sample={"family": "integer polynomials of degree <= 3"})
    X = p.Variable("X")
    q = Query(timeout_ms=20000)

    def P(*c):
        return Polynomial(X, tuple((i, ci) for i, ci in enumerate(c) if ci != 0))
    lin = [P(-1, 1), P(1, 1), P(0, 1), P(2, 1), P(-2, 2)]
    pairs = []
    for a_ in lin:
        for b_ in lin:
            pairs += [(a_ * b_, a_), (a_, a_ * b_), (a_ * b_, b_ * a_)]
            for c_ in lin[:3]:
                pairs.append((a_ * b_, a_ * c_))
    pairs += [(P(1, 0, 1), P(-1, 1)), (P(2, 3, 1), P(-2, 1, 1)), (P(-1, 0, 1), P(-2, 2)), (P(1, 1), P(1, 1)), (P(3), P(0, 1)),
              (P(0, 0, 0, 1), P(0, 1)), (P(-1, 0, 0, 1), P(-1, 1)), (P(1, 2, 1), P(1, 2, 1))]
    xs = sym.var("X", "int")[0]

    def value(poly):
        return EvaluationMapper({"X": xs})(poly) if isinstance(poly, p.Expression) else poly

    def on_alarm(*a):
        raise TimeoutError()
    seen = set()
    old = signal.signal(signal.SIGALRM, on_alarm)
    try:
        for u, v in pairs:
            key = (repr(u.Data), repr(v.Data))
            if key in seen:
                continue
            seen.add(key)
            res.path_assertions += 1
            text = f"u={list(u.Data)} v={list(v.Data)}"
            signal.alarm(5)
            try:
                g, a, b = extended_euclidean(u, v)
                signal.alarm(0)
            except TimeoutError:
                _viol(res, f"euclid-poly {text} no termination", "euclid-poly-no-termination",
                      f"extended_euclidean on the polynomials {text} (lists of (exponent, coefficient)) does not return within 5 s")
                continue
            except ArithmeticError as e:
                signal.alarm(0)
                if isinstance(e, ZeroDivisionError):
                    _viol(res, f"euclid-poly {text} raises", "euclid-poly", f"extended_euclidean({text}) raised {e!r}")
                else:
                    _viol(res, f"euclid-poly {text} refused", "euclid-poly-refused-over-integers",
                          f"extended_euclidean({text}) raised {e!r}: no gcd / Bezout coefficients are returned")
                continue
            except Exception as e:  # noqa: BLE001
                signal.alarm(0)
                _viol(res, f"euclid-poly {text} raises", "euclid-poly", f"extended_euclidean({text}) raised {e!r}")
                continue
            try:
                goal = sym.eq_term(value(g), value(a) * value(u) + value(b) * value(v), "int")
                verdict, model = q.valid([], goal)
                if verdict == "sat":
                    _viol(res, f"euclid-poly {text} bezout", "euclid-poly",
                          f"extended_euclidean({text}) = (g, a, b) with g != a*u + b*v at X = {sym.model_value(model, xs)}")
                    continue
                for nm, w in (("u", u), ("v", v)):
                    if isinstance(g, Polynomial):
                        quo, rem = divmod(w, g)
                        if rem:
                            _viol(res, f"euclid-poly {text} divides-{nm}", "euclid-poly",
                                  f"extended_euclidean({text}): g = {list(g.Data)} does not divide {nm} (remainder {rem!r})")
            except Exception as e:  # noqa: BLE001
                _viol(res, f"euclid-poly {text} check raises", "euclid-poly", f"checking the result for {text} raised {e!r}")
    finally:
        signal.alarm(0)
        signal.signal(signal.SIGALRM, old)
    res.paths = 1
    return H.finish(res, [], q)


def check_poly_exprcoeff():
    """polynomials whose coefficients are expressions (other variables, exact quotient nodes): the value of p op q equals
    value(p) op value(q); such coefficients have no order, products put several of them on one exponent"""
    import operator
    from pymbolic import evaluate
    from pymbolic.polynomial import Polynomial
    from pymbolic.primitives import quotient
    res = ItemResult(item="polynomials with expression coefficients", sample={"family": "coefficients that are trees"})
    X, y, z = p.Variable("X"), p.Variable("y"), p.Variable("z")
    polys = [Polynomial(X, ((0, y), (1, 1))), Polynomial(X, ((0, p.Product((-1, y))), (1, 1))), Polynomial(X, ((0, 1), (1, quotient(1, 2)))),
             Polynomial(X, ((0, 1), (1, quotient(1, 3)))), Polynomial(X, ((0, quotient(1, 3)), (1, quotient(1, 2)))),
             Polynomial(X, ((0, z), (1, y), (2, 1))), Polynomial(X, ((0, -1), (1, quotient(1, 2))))]
    env = {"X": Fraction(3, 2), "y": Fraction(5, 7), "z": Fraction(-2, 3)}
    ops = [("+", operator.add), ("-", operator.sub), ("*", operator.mul)]
    for (i, a), (j, b) in itertools.product(enumerate(polys), repeat=2):
        for nm, f in ops:
            res.path_assertions += 1
            try:
                got = evaluate(f(a, b), env)
                want = f(evaluate(a, env), evaluate(b, env))
                ok = got == want or abs(complex(got) - complex(want)) <= 1e-9     # quotient nodes evaluate to floats
                detail = f"value {got}, expected {want}"
            except Exception as e:  # noqa: BLE001
                ok, detail = False, f"raised {e!r}"
            if not ok:
                _viol(res, f"polyexprcoeff p{i} {nm} p{j}", "poly-expression-coefficients",
                      f"({a}) {nm} ({b}) at X=3/2, y=5/7, z=-2/3: {detail}")
    for i, a in enumerate(polys):
        for n in (2, 3):
            res.path_assertions += 1
            try:
                got, want = evaluate(a ** n, env), evaluate(a, env) ** n
                ok, detail = got == want or abs(complex(got) - complex(want)) <= 1e-9, f"value {got}, expected {want}"
            except Exception as e:  # noqa: BLE001
                ok, detail = False, f"raised {e!r}"
            if not ok:
                _viol(res, f"polyexprcoeff p{i} ** {n}", "poly-expression-coefficients", f"({a}) ** {n}: {detail}")
    res.paths = 1
    return res


def check_poly_mapper():
    """the value homomorphism also holds after a mapper has rewritten the coefficients"""
    from pymbolic import evaluate, substitute
    from pymbolic.mapper import IdentityMapper
    from pymbolic.polynomial import Polynomial
    res = ItemResult(item="polynomial through mappers", sample={"family": "IdentityMapper / substitution on coefficients"})
    X, a, b = p.Variable("X"), p.Variable("a"), p.Variable("b")
    polys = [Polynomial(X, ((0, a), (1, b), (3, 2))), Polynomial(X, ((1, p.Sum((a, 1))), (2, p.Product((a, b))))),
             Polynomial(p.Sum((X, a)), ((0, 1), (2, b))),
             # coefficients that a substitution turns into zero: leading, inner, lowest, several
             Polynomial(X, ((0, 1), (1, 2), (2, a))), Polynomial(X, ((0, 1), (1, a), (2, 2))), Polynomial(X, ((0, a), (1, 2), (3, b))),
             Polynomial(X, ((1, b), (2, a), (4, a)))]
    env = {"X": Fraction(3, 2), "a": 5, "b": -2}
    for poly in polys:
        for mname, mp in (("IdentityMapper", lambda e: IdentityMapper()(e)),
                          ("substitute a->7", lambda e: substitute(e, {"a": 7})),
                          ("substitute b->a+1", lambda e: substitute(e, {"b": p.Sum((a, 1))})),
                          ("substitute a->0", lambda e: substitute(e, {"a": 0})),
                          ("substitute b->0", lambda e: substitute(e, {"b": 0})),
                          ("substitute a->0,b->0", lambda e: substitute(e, {"a": 0, "b": 0}))):
            res.path_assertions += 1
            try:
                r = mp(poly)
                env2 = dict(env)
                if "a->7" in mname:
                    env2["a"] = 7
                if "b->a+1" in mname:
                    env2["b"] = env["a"] + 1
                if "a->0" in mname:
                    env2["a"] = 0
                if "b->0" in mname:
                    env2["b"] = 0
                # the result must not mention a replaced name any more: evaluate it WITHOUT those names
                env_r = {k: v for k, v in env.items() if not ((k == "a" and ("a->" in mname)) or (k == "b" and "b->0" in mname))}
                if "b->a+1" in mname:
                    env_r = {k: v for k, v in env.items() if k != "b"}
                got = evaluate(r, env_r) if isinstance(r, p.Expression) else r
                want = evaluate(poly, env2)
                zeroing = "->0" in mname
                ok = got == want and (zeroing or (isinstance(r, Polynomial) and len(r.data) == len(poly.data)))
                detail = f"{mname}({poly!r}) = {r!r}: evaluates to {got}, expected {want}"
            except Exception as e:  # noqa: BLE001
                ok, detail = False, f"{mname}({poly!r}) raised {e!r}"
            if not ok:
                _viol(res, f"polymapper {mname} {poly!r}", "poly-mapper", detail)
    res.paths = 1
    return res


def check_quotient(tier):
    from pymbolic.mapper.evaluator import EvaluationMapper
    sym.set_family("int")
    res = ItemResult(item="quotient node", sample={"family": "primitives.quotient(a, b) on symbolic integers"})
    a, b = sym.var("a", "int")[0], sym.var("b", "int")[0]
    q = Query()

    def harness():
        node = p.quotient(a, b)
        v = EvaluationMapper({})(node) if isinstance(node, p.Expression) else node
        return node, v
    ex = Explorer(pre=[b.term != 0], max_paths=64, timeout_ms=10000)
    for path in ex.run(harness):
        res.path_assertions += 1
        if path.exc is not None:
            _viol(res, "quotient raises", "quotient-node", f"quotient(a, b) raised {path.exc!r}")
            break
        node, v = path.result
        goal = sym.eq_term(v, sym.SymFrac(z3.ToReal(a.term) / z3.ToReal(b.term)), "real")
        verdict, model = q.valid(path.pc, goal)
        if verdict == "sat":
            va, vb = sym.model_value(model, a), sym.model_value(model, b)
            from pymbolic import evaluate
            got = evaluate(p.quotient(va, vb))
            if Fraction(got).limit_denominator(10**6) == Fraction(va, vb):
                raise HarnessError(f"quotient counterexample did not reproduce for {va}/{vb}")
            _viol(res, f"quotient({va},{vb})", "quotient-node", f"quotient({va}, {vb}) = {p.quotient(va, vb)!r} evaluates to {got}, expected {Fraction(va, vb)}")
            break
    # concrete arithmetic on quotient nodes
    from pymbolic import evaluate
    for (n1, d1), (n2, d2) in itertools.product([(3, 2), (-3, 6), (5, -4), (7, 1), (0, 5)], repeat=2):
        x, y = p.quotient(n1, d1), p.quotient(n2, d2)
        for name, fn, ref in (("+", lambda u, v: u + v, Fraction(n1, d1) + Fraction(n2, d2)),
                              ("*", lambda u, v: u * v, Fraction(n1, d1) * Fraction(n2, d2)),
                              ("-", lambda u, v: u - v, Fraction(n1, d1) - Fraction(n2, d2)),
                              ("**2", lambda u, v: u ** 2, Fraction(n1, d1) ** 2)):
            res.path_assertions += 1
            try:
                r = fn(x, y)
                got = evaluate(r) if isinstance(r, p.Expression) else r
                ok = abs(Fraction(got) - ref) < Fraction(1, 10**9)
                detail = f"quotient({n1},{d1}) {name} quotient({n2},{d2}) = {r!r} -> {got}, expected {ref}"
            except Exception as e:  # noqa: BLE001
                ok, detail = False, f"quotient({n1},{d1}) {name} quotient({n2},{d2}) raised {e!r}"
            if not ok:
                _viol(res, f"quotient arith {name} {(n1, d1)} {(n2, d2)}", "quotient-arith", detail)
                return H.finish(res, [ex.stats], q)
    return H.finish(res, [ex.stats], q)

# }}}


def items(tier):
    out = [("ipow", "int"), ("ipow", "mat"), ("euclid",), ("euclidpoly",), ("quotient",), ("polymapper",), ("polyexprcoeff",)]
    nmax = 12 if tier == "quick" else 32
    for n in range(1, nmax + 1):
        out += [("fft", n, "fft"), ("fft", n, "ifft(fft)")]
        if n <= (8 if tier == "quick" else 32):
            out += [("fft", n, "fft sign=-1"), ("fft", n, "ifft")]
        if n <= (8 if tier == "quick" else 16):
            out += [("fft", n, "sym_fft"), ("fft", n, "sym_fft sign=-1")]
    out += [("poly", i) for i in range(len(POLY_SHAPES))]
    return out


def twins(tier):
    return [("twin_ipow",), ("twin_fft",), ("twin_euclid",)]


def check_item(item, tier):
    k = item[0]
    if k == "ipow":
        return check_ipow(item[1], tier)
    if k == "twin_ipow":
        return check_ipow("int", tier, twin=True)
    if k == "euclid":
        return check_euclid(tier)
    if k == "twin_euclid":
        return check_euclid(tier, twin=True)
    if k == "fft":
        return check_fft(item[1], item[2], tier)
    if k == "twin_fft":
        return check_fft(4, "fft", tier, twin=True)
    if k == "poly":
        return check_poly(item[1], tier)
    if k == "polyexprcoeff":
        return check_poly_exprcoeff()
    if k == "euclidpoly":
        return check_euclid_poly(tier)
    if k == "polymapper":
        return check_poly_mapper()
    if k == "quotient":
        return check_quotient(tier)
    raise ValueError(item)
