"""C18 — multivectors obey the axioms of geometric (Clifford) algebra.

Blade bitmaps are dict keys (concrete skeletons: all pairs / triples of basis
blades per dimension); blade coefficients and ALL diagonal metric entries are
symbolic integers (rationals for the inverse).  The real Space / MultiVector code
runs on numpy object arrays of proxies; the oracle is a list-based blade product
(sort with inversion count, contract equal neighbours with the metric).  z3 proves
every identity for all coefficients and all diagonal metrics."""
from __future__ import annotations

import itertools

import numpy as np
import z3

from pv import harness as H
from pv.common import ItemResult, Violation
from pv.engine import explore, sym
from pv.engine.explore import Explorer, HarnessError, Query

BOUNDS = {"quick": {"pairs_dims": "0-3", "triples_dims": "0-3", "bilinearity_dim": 2, "bit_kernels": "4-bit symbolic bitmaps",
                    "metric": "every diagonal entry an unbounded symbolic integer", "max_paths": 4000},
          "thorough": {"pairs_dims": "0-5", "triples_dims": "0-4", "bit_kernels": "6-bit symbolic bitmaps", "max_paths": 40000}}
ASSUMPTIONS = ["diagonal metrics only (the library refuses the geometric product otherwise)", "exact integer / rational coefficients"]
RULE = "items: (dimension, clause); within an item all blade pairs/triples are enumerated; values are symbolic"


def make_space(dim, fam="int"):
    from pymbolic.geometric_algebra import Space
    g = [sym.var(f"g{i}", fam)[0] for i in range(dim)]
    m = np.zeros((dim, dim), dtype=object)
    for i in range(dim):
        m[i, i] = g[i]
    return Space(dim, m) if dim else Space(0, np.zeros((0, 0), dtype=object)), g


def bits_of(S):
    b = 0
    for i in S:
        b |= 1 << i
    return b


def oracle_blade_product(S, T, g):
    """list-based product of basis blades e_S e_T -> (sign, metric factor term list, result index tuple)"""
    lst = list(S) + list(T)
    sign = 1
    # bubble sort with inversion count
    n = len(lst)
    for i in range(n):
        for j in range(n - 1 - i):
            if lst[j] > lst[j + 1]:
                lst[j], lst[j + 1] = lst[j + 1], lst[j]
                sign = -sign
    out, factors = [], []
    i = 0
    while i < len(lst):
        if i + 1 < len(lst) and lst[i] == lst[i + 1]:
            factors.append(g[lst[i]])
            i += 2
        else:
            out.append(lst[i])
            i += 1
    return sign, factors, tuple(out)


def all_blades(dim):
    return [S for r in range(dim + 1) for S in itertools.combinations(range(dim), r)]


def coeff_of(mv, bits):
    return mv.data.get(bits, 0)


def _viol(res, sig, kind, detail):
    res.status = "violation"
    res.violations.append(Violation(sig=sig, kind=kind, detail=detail, replay={"detail": detail}))


def _model_vals(model, g, extra):
    return {**{f"g{i}": sym.model_value(model, gi) for i, gi in enumerate(g)},
            **{k: sym.model_value(model, v) for k, v in extra.items()}}


PRODUCTS = {
    "*": (lambda a, b: a * b, lambda r, s, k: True),
    "^": (lambda a, b: a ^ b, lambda r, s, k: k == 0),
    "|": (lambda a, b: a | b, lambda r, s, k: k == min(r, s)),
    "<<": (lambda a, b: a << b, lambda r, s, k: k == r),
    ">>": (lambda a, b: a >> b, lambda r, s, k: k == s),
    "scalar": (lambda a, b: a.scalar_product(b), lambda r, s, k: k == r == s),
}


def check_pairs(dim, tier, twin=False):
    """every product of two basis blades (symbolic coefficients, symbolic metric) equals the oracle's grade part"""
    from pymbolic.geometric_algebra import MultiVector
    sym.set_family("int")
    res = ItemResult(item=f"blade pairs dim={dim}", sample={"dimension": dim, "pairs": 4 ** dim})
    q = Query()
    stats = []
    a, b = sym.var("a", "int")[0], sym.var("b", "int")[0]
    pre = [a.term != 0, b.term != 0]
    blades = all_blades(dim)
    for S, T in itertools.product(blades, blades):
        def harness(S=S, T=T):
            space, g = make_space(dim)
            A = MultiVector({bits_of(S): a}, space)
            B = MultiVector({bits_of(T): b}, space)
            out = {}
            for name, (fn, _) in PRODUCTS.items():
                out[name] = fn(A, B)
            return g, out
        ex = Explorer(pre=pre, max_paths=256, timeout_ms=10000)
        for path in ex.run(harness):
            if path.exc is not None:
                _viol(res, f"pairs dim={dim} {S}x{T} raises", "ga-raises", f"e{S} op e{T} raised {path.exc!r}")
                break
            g, out = path.result
            sign, factors, R = oracle_blade_product(S, T, g)
            k = len(set(S) & set(T))
            gp = sign * a * b
            for f in factors:
                gp = gp * f
            for name, (_, keep) in PRODUCTS.items():
                res.path_assertions += 1
                exp = gp if keep(len(S), len(T), k) else 0
                if twin and name == "*":
                    exp = -gp
                r = out[name]
                if name == "scalar":
                    got_terms = {0: r}
                    others_zero = True
                else:
                    got_terms = dict(r.data)
                    others_zero = all(bits == bits_of(R) for bits in got_terms)
                got = got_terms.get(bits_of(R) if name != "scalar" else 0, 0)
                goal = z3.And(sym.eq_term(got, exp, "int"),
                              *[sym.eq_term(v, 0, "int") for bts, v in got_terms.items()
                                if bts != (bits_of(R) if name != "scalar" else 0)])
                verdict, model = q.valid(path.pc, goal)
                if verdict == "unsat":
                    continue
                if verdict == "unknown":
                    res.status = "inconclusive"
                    continue
                vals = _model_vals(model, g, {"a": a, "b": b})
                ok, detail = _replay_pair(dim, S, T, name, vals, twin)
                if not ok:
                    raise HarnessError(f"counterexample did not reproduce: dim={dim} e{S} {name} e{T} {vals}: {detail}")
                _viol(res, f"pairs dim={dim} e{S} {name} e{T}", f"ga-product-{name}",
                      f"dim {dim}, metric/coefficients {vals}: e{S} {name} e{T}: {detail}")
                return H.finish(res, stats + [ex.stats], q)
        stats.append(ex.stats)
    return H.finish(res, stats, q)


def _concrete_space(dim, vals):
    from pymbolic.geometric_algebra import Space
    m = np.zeros((dim, dim), dtype=object)
    for i in range(dim):
        m[i, i] = vals[f"g{i}"]
    return Space(dim, m)


def _confirm(dim, vals, mk, name, what):
    """replay an identity with the model's plain rational numbers against the real code; a counterexample that does
    not reproduce is a harness error"""
    space = _concrete_space(dim, vals)
    gc = [vals[f"g{i}"] for i in range(dim)]
    checks = mk(space, gc)
    if name not in checks:
        raise HarnessError(f"{what}: identity {name} not reached on replay with {vals}")
    X, Y = checks[name]
    keys = set(X.data) | set(Y.data)
    if all(X.data.get(k_, 0) == Y.data.get(k_, 0) for k_ in keys):
        raise HarnessError(f"{what}: counterexample for {name} did not reproduce with {vals}")


def _replay_pair(dim, S, T, name, vals, twin=False):
    from pymbolic.geometric_algebra import MultiVector
    space = _concrete_space(dim, vals)
    g = [vals[f"g{i}"] for i in range(dim)]
    A = MultiVector({bits_of(S): vals["a"]}, space)
    B = MultiVector({bits_of(T): vals["b"]}, space)
    r = PRODUCTS[name][0](A, B)
    sign, factors, R = oracle_blade_product(S, T, g)
    gp = sign * vals["a"] * vals["b"]
    for f in factors:
        gp *= f
    k = len(set(S) & set(T))
    exp = gp if PRODUCTS[name][1](len(S), len(T), k) else 0
    if twin and name == "*":
        exp = -gp
    got = r if name == "scalar" else {b_: c for b_, c in r.data.items() if c != 0}
    want = exp if name == "scalar" else ({bits_of(R): exp} if exp != 0 else {})
    return got != want, f"library gives {got}, list-based blade product gives {want}"


def check_assoc(dim, tier):
    from pymbolic.geometric_algebra import MultiVector
    sym.set_family("int")
    res = ItemResult(item=f"associativity dim={dim}", sample={"dimension": dim, "triples": 8 ** dim})
    q = Query()
    stats = []
    cs = [sym.var(n, "int")[0] for n in "abc"]
    pre = [c.term != 0 for c in cs]
    blades = all_blades(dim)
    for S, T, U in itertools.product(blades, repeat=3):
        def harness(S=S, T=T, U=U):
            space, g = make_space(dim)
            A, B, C = (MultiVector({bits_of(X): c}, space) for X, c in zip((S, T, U), cs))
            return g, (A * B) * C, A * (B * C)
        ex = Explorer(pre=pre, max_paths=256, timeout_ms=10000)
        for path in ex.run(harness):
            if path.exc is not None:
                _viol(res, f"assoc dim={dim} {S}{T}{U} raises", "ga-raises", f"raised {path.exc!r}")
                break
            g, L, R = path.result
            res.path_assertions += 1
            keys = set(L.data) | set(R.data)
            goal = z3.And(*[sym.eq_term(L.data.get(k_, 0), R.data.get(k_, 0), "int") for k_ in keys]) if keys else z3.BoolVal(True)
            verdict, model = q.valid(path.pc, goal)
            if verdict == "unsat":
                continue
            if verdict == "unknown":
                res.status = "inconclusive"
                continue
            vals = _model_vals(model, g, dict(zip("abc", cs)))
            space = _concrete_space(dim, vals)
            A, B, C = (MultiVector({bits_of(X): vals[n]}, space) for X, n in zip((S, T, U), "abc"))
            l2, r2 = (A * B) * C, A * (B * C)
            if {k_: v for k_, v in l2.data.items() if v != 0} == {k_: v for k_, v in r2.data.items() if v != 0}:
                raise HarnessError(f"assoc counterexample did not reproduce dim={dim} {S}{T}{U} {vals}")
            _viol(res, f"assoc dim={dim} e{S} e{T} e{U}", "ga-associativity",
                  f"dim {dim}, {vals}: (e{S} e{T}) e{U} = {l2.data} but e{S} (e{T} e{U}) = {r2.data}")
            return H.finish(res, stats + [ex.stats], q)
        stats.append(ex.stats)
    return H.finish(res, stats, q)


def check_unary(dim, tier):
    """rev / invol anti-/automorphisms, dual, norm_squared, inverse on blades (rational coefficients and metric)"""
    from pymbolic.geometric_algebra import MultiVector
    sym.set_family("real")
    res = ItemResult(item=f"unary identities dim={dim}", sample={"dimension": dim})
    q = Query()
    stats = []
    a, b = sym.var("a", "real")[0], sym.var("b", "real")[0]
    pre = [a.term != 0, b.term != 0]
    blades = all_blades(dim)

    def eq_mv(X, Y):
        keys = set(X.data) | set(Y.data)
        return z3.And(*[sym.eq_term(X.data.get(k_, 0), Y.data.get(k_, 0), "real") for k_ in keys]) if keys else z3.BoolVal(True)

    for S, T in itertools.product(blades, blades):
        def mk_checks(space, g, a_, b_, S=S, T=T):
            A = MultiVector({bits_of(S): a_}, space)
            B = MultiVector({bits_of(T): b_}, space)
            one = MultiVector({0: 1}, space)
            checks = {
                "rev(AB)=rev(B)rev(A)": ((A * B).rev(), B.rev() * A.rev()),
                "invol(AB)=invol(A)invol(B)": ((A * B).invol(), A.invol() * B.invol()),
                "rev(rev(A))=A": (A.rev().rev(), A),
            }
            if S == T:
                gprod = 1
                for i in S:
                    gprod = gprod * g[i]
                checks["norm_squared"] = (MultiVector({0: A.norm_squared()}, space), MultiVector({0: a_ * a_ * gprod}, space))
                checks["dual=A*rev(I)"] = (A.dual(), A * A.I.rev())
                try:
                    inv = A.inv()
                    checks["inv(A)*A=1"] = (inv * A, one)
                    checks["A*inv(A)=1"] = (A * inv, one)
                except ZeroDivisionError:
                    checks["null blade"] = (one, one)
            return checks

        def harness(mk_checks=mk_checks):
            space, g = make_space(dim, "real")
            return g, mk_checks(space, g, a, b)
        ex = Explorer(pre=pre, max_paths=256, timeout_ms=10000)
        for path in ex.run(harness):
            if path.exc is not None:
                _viol(res, f"unary dim={dim} {S}{T} raises", "ga-raises", f"e{S}, e{T}: raised {path.exc!r}")
                break
            g, checks = path.result
            for name, (X, Y) in checks.items():
                res.path_assertions += 1
                verdict, model = q.valid(path.pc, eq_mv(X, Y))
                if verdict == "unsat":
                    continue
                if verdict == "unknown":
                    res.status = "inconclusive"
                    continue
                vals = _model_vals(model, g, {"a": a, "b": b})
                _confirm(dim, vals, lambda sp, gc: mk_checks(sp, gc, vals["a"], vals["b"]), name, f"unary dim={dim} e{S} e{T}")
                _viol(res, f"unary dim={dim} e{S} e{T} {name}", f"ga-unary-{name.split('=')[0]}",
                      f"dim {dim}, {vals}: identity {name} fails for A = a e{S}, B = b e{T}: "
                      f"{ {k_: str(v) for k_, v in X.data.items()} } vs { {k_: str(v) for k_, v in Y.data.items()} }")
                return H.finish(res, stats + [ex.stats], q)
        stats.append(ex.stats)
    # inverse of non-basis blades: two-component vectors and pseudovectors (every such multivector is a blade);
    # where the library returns an inverse at all (it may decline with NotImplementedError) it must be one
    for grade in sorted({1, dim - 1}):
        if grade < 1 or dim < 2:
            continue
        comps = [S for S in blades if len(S) == grade]
        for S, T in itertools.combinations(comps, 2):
            def mk_inv(space, g, a_, b_, S=S, T=T):
                Bv = MultiVector({bits_of(S): a_, bits_of(T): b_}, space)
                one = MultiVector({0: 1}, space)
                try:
                    inv = Bv.inv()
                except (NotImplementedError, ZeroDivisionError):
                    return {}
                return {"inv(B)*B=1": (inv * Bv, one), "B*inv(B)=1": (Bv * inv, one)}

            def harness2(mk_inv=mk_inv):
                space, g = make_space(dim, "real")
                return g, mk_inv(space, g, a, b)
            ex = Explorer(pre=pre, max_paths=256, timeout_ms=10000, rlimit=20000000)
            for path in ex.run(harness2):
                if path.exc is not None:
                    if isinstance(path.exc, (explore.Inconclusive,)):
                        res.status = "inconclusive" if res.status == "ok" else res.status
                        continue
                    _viol(res, f"inverse dim={dim} e{S}+e{T} raises", "ga-raises", f"a e{S} + b e{T}: raised {path.exc!r}")
                    break
                g, checks = path.result
                for name, (X, Y) in checks.items():
                    res.path_assertions += 1
                    verdict, model = q.valid(path.pc, eq_mv(X, Y))
                    if verdict == "unsat":
                        continue
                    if verdict == "unknown":
                        res.status = "inconclusive" if res.status == "ok" else res.status
                        continue
                    vals = _model_vals(model, g, {"a": a, "b": b})
                    _confirm(dim, vals, lambda sp, gc: mk_inv(sp, gc, vals["a"], vals["b"]), name, f"inverse dim={dim} e{S}+e{T}")
                    _viol(res, f"inverse dim={dim} e{S}+e{T} {name}", "ga-unary-inv",
                          f"dim {dim}, {vals}: {name} fails for the blade B = a e{S} + b e{T}: "
                          f"{ {k_: str(v) for k_, v in X.data.items()} }")
                    return H.finish(res, stats + [ex.stats], q)
            stats.append(ex.stats)
    return H.finish(res, stats, q)


def check_bilinear(dim, tier, only_metric=None, only_product=None, only_support=None):
    """(A + B) op C = A op C + B op C, C op (A + B) likewise, (sA) op B = s (A op B): A and B have symbolic coefficients on
    every pair of blades, C is a concrete full multivector, the diagonal metric ranges over {1, -1, 0, 2}^dim.
    (With every coefficient symbolic the library's zero-tests on accumulated sums fork on nonlinear conditions; the
    symbolic-metric case is covered blade-wise by the pair and associativity items, which with these linearity items
    extends to all multivectors.)"""
    from pymbolic.geometric_algebra import MultiVector, Space
    sym.set_family("int")
    res = ItemResult(item=f"bilinearity dim={dim}", sample={"dimension": dim})
    q = Query()
    blades = [bits_of(S) for S in all_blades(dim)]
    supports = list(itertools.combinations(blades, min(2, len(blades))))
    if tier == "quick" and dim >= 2:
        supports = [supports[0], supports[-1]]
    metrics = list(itertools.product([1, -1, 0, 2], repeat=dim))
    if tier == "quick" and dim >= 2:
        metrics = [(1, -1), (0, 2)]

    def eq_mv(X, Y):
        keys = set(X.data) | set(Y.data)
        return z3.And(*[sym.eq_term(X.data.get(k_, 0), Y.data.get(k_, 0), "int") for k_ in keys]) if keys else z3.BoolVal(True)

    stats = []
    if only_metric is not None:
        metrics = [metrics[only_metric % len(metrics)]]
        res.item += f" metric={metrics[0]} product={only_product}"
    for gdiag in metrics:
        m = np.zeros((dim, dim), dtype=object)
        for i_ in range(dim):
            m[i_, i_] = gdiag[i_]
        space = Space(dim, m)
        Cfull = {bts: (3 + 2 * n_) * (-1) ** n_ for n_, bts in enumerate(blades)}
        # C is kept sparse (<= 2 blades) for dim >= 2: every accumulated zero-test in the product forks the path
        Cs = [MultiVector(Cfull, space)] if dim < 2 else [
            MultiVector({b_: Cfull[b_] for b_ in (blades[0], blades[-1])}, space),
            MultiVector({b_: Cfull[b_] for b_ in (blades[1], blades[2])}, space)]
        sup_pairs = list(itertools.product(supports, supports))
        if only_support is not None:
            sup_pairs = [sup_pairs[only_support % len(sup_pairs)]]
            res.item += f" supports={sup_pairs[0]}"
        for sa, sb in sup_pairs:
            for name in ([only_product] if only_product else ["*", "^", "|", "<<", ">>"]):
                fn = PRODUCTS[name][0]

                for C in Cs:
                    def harness(fn=fn, sa=sa, sb=sb, C=C):
                        A = MultiVector({bts: sym.var(f"a{bts}", "int")[0] for bts in sa}, space)
                        B = MultiVector({bts: sym.var(f"b{bts}", "int")[0] for bts in sb}, space)
                        s_ = sym.var("s", "int")[0]
                        return {"left-additive": (fn(A + B, C), fn(A, C) + fn(B, C)),
                                "right-additive": (fn(C, A + B), fn(C, A) + fn(C, B)),
                                "homogeneous": (fn(s_ * A, C), s_ * fn(A, C))}
                    ex = Explorer(pre=[], max_paths=4096, timeout_ms=10000)
                    for path in ex.run(harness):
                        if path.exc is not None:
                            _viol(res, f"bilinear dim={dim} {name} raises", "ga-raises", f"raised {path.exc!r}")
                            break
                        for cname, (X, Y) in path.result.items():
                            res.path_assertions += 1
                            verdict, model = q.valid(path.pc, eq_mv(X, Y))
                            if verdict == "unsat":
                                continue
                            if verdict == "unknown":
                                res.status = "inconclusive"
                                continue
                            vals = {str(d): model[d] for d in model.decls()}
                            _viol(res, f"bilinear dim={dim} metric={gdiag} {name} {cname} supports={sa},{sb}", f"ga-bilinear-{name}",
                                  f"dim {dim}, metric diag{gdiag}: {cname} fails for {name} with A on blades {sa}, B on {sb}, "
                                  f"C = {C.data}: coefficients {vals}: {X.data} vs {Y.data}")
                            return H.finish(res, stats + [ex.stats], q)
                    stats.append(ex.stats)
                    if not ex.complete:
                        res.status = "inconclusive"
                        res.note = "; ".join(ex.inconclusive_reasons[:1])
    return H.finish(res, stats, q)


def check_compare(dim):
    """==, hash and truth-testing agree with coefficient-wise comparison (concrete multivectors, incl. cancellations)"""
    from pymbolic.geometric_algebra import MultiVector, Space
    res = ItemResult(item=f"eq/hash/bool dim={dim}", sample={"dimension": dim})
    m = np.zeros((dim, dim), dtype=object)
    for i in range(dim):
        m[i, i] = [1, -1, 0, 2][i % 4]
    space = Space(dim, m)
    e = [MultiVector({1 << i: 1}, space) for i in range(dim)]
    one = MultiVector({0: 1}, space)
    pool = [MultiVector({}, space), one, one - one, one * 0, MultiVector(0, space), MultiVector({0: 0}, space)]
    if dim >= 1:
        # coefficient-wise equal multivectors whose terms were inserted in a different order
        pool += [MultiVector({0: 1, 1: 2}, space), MultiVector({1: 2, 0: 1}, space), (e[0] + one) * 2, 2 * one + 2 * e[0],
                 (one + e[0]) * (one + 2 * e[0]), one + e[0] * 3 + (e[0] * e[0]) * 2 if True else None]
    if dim >= 2:
        a_, b_, c_ = e[0] + 2 * e[1], one + e[1], e[0] + one
        pool += [(a_ + b_) * c_, a_ * c_ + b_ * c_, b_ * c_ + a_ * c_, c_ * (a_ + b_), c_ * b_ + c_ * a_,
                 MultiVector({3: 1, 1: 1, 2: 1, 0: 1}, space), MultiVector({0: 1, 1: 1, 2: 1, 3: 1}, space)]
    if dim >= 1:
        pool += [e[0], e[0] - e[0], 2 * e[0], e[0] + e[0], (e[0] + one) * (e[0] - one) if True else None, e[0] ^ e[0]]
    if dim >= 2:
        u = e[0] + e[1]
        pool += [u, u ^ u, u * u, e[0] * e[1] + e[1] * e[0], e[0] * e[1], -(e[1] * e[0]), MultiVector({3: 0, 1: 1}, space),
                 u * u - MultiVector({0: m[0, 0] + m[1, 1]}, space)]
    if dim >= 3:
        pool += [(e[0] ^ e[1]) * e[2], e[0] * (e[1] ^ e[2]), e[2] | (e[0] ^ e[2])]
    if dim >= 2:
        # index-tuple keys in either order, cancelling or adding up, against the same multivectors built with + and *
        pool += [MultiVector({(0, 1): 3, (1, 0): 3}, space), MultiVector({(0, 1): 3, (1, 0): -3}, space), 6 * (e[0] ^ e[1]),
                 MultiVector({(1, 0): 1}, space), MultiVector({(): 0, (0,): 1}, space), MultiVector({(0, 1): 0}, space)]
    # symbolic (expression) coefficients: equal trees as coefficients compare equal, different ones do not
    import pymbolic.primitives as prim
    xs, ys = prim.Variable("x"), prim.Variable("y")
    pool += [MultiVector({0: xs}, space), MultiVector({0: prim.Variable("x")}, space), MultiVector({0: ys}, space),
             MultiVector({0: prim.Sum((xs, 1))}, space), MultiVector({0: prim.Sum((prim.Variable("x"), 1))}, space)]
    if dim >= 1:
        pool += [MultiVector({0: xs, 1: ys}, space), MultiVector({1: prim.Variable("y"), 0: prim.Variable("x")}, space),
                 MultiVector({0: ys, 1: xs}, space), MultiVector({1: xs}, space)]

    def coeffs(v):
        return {k_: c for k_, c in v.data.items() if c != 0}
    for X, Y in itertools.product(pool, pool):
        res.path_assertions += 1
        exp = coeffs(X) == coeffs(Y)
        try:
            got = (X == Y, Y == X, not (X != Y))
            hashes_ok = (hash(X) == hash(Y)) if exp else True
        except Exception as ex_:  # noqa: BLE001
            _viol(res, f"compare dim={dim} raises", "ga-compare", f"comparing {X} and {Y} raised {ex_!r}")
            return res
        if got != (exp, exp, exp) or not hashes_ok:
            _viol(res, f"compare dim={dim} {X.data} vs {Y.data}", "ga-compare",
                  f"dim {dim}: {X!r} vs {Y!r}: (==, reversed, not !=) = {got}, hash equal = {hashes_ok}; coefficient-wise equal = {exp}")
    for X in pool:
        res.path_assertions += 1
        if bool(X) != bool(coeffs(X)):
            _viol(res, f"bool dim={dim} {X.data}", "ga-bool", f"dim {dim}: bool({X!r}) = {bool(X)}, but its non-zero coefficients are {coeffs(X)}")
    res.paths = 1
    return res


def check_ctor(dim, tier):
    """Construction from a mapping keyed by index TUPLES (any order) or bitmaps with symbolic coefficients a, b that may be
    zero or cancel: the stored coefficient equals the signed sum, and truth-testing / == agree with coefficient-wise
    comparison (no explicit zero may be stored).  z3 decides per path for all a, b."""
    from pymbolic.geometric_algebra import MultiVector
    sym.set_family("real")
    res = ItemResult(item=f"constructor dim={dim}", sample={"dimension": dim})
    q = Query()
    stats = []
    a, b = sym.var("a", "real")[0], sym.var("b", "real")[0]

    def parity(perm):
        inv = sum(1 for i in range(len(perm)) for j in range(i + 1, len(perm)) if perm[i] > perm[j])
        return -1 if inv % 2 else 1

    cases = []
    for S in all_blades(dim):
        perms = list(itertools.permutations(S))
        cases.append(("bitmap", S, None, None))
        for p1 in perms:
            cases.append(("tuple1", S, p1, None))
            for p2 in perms:
                if p1 < p2:
                    cases.append(("tuple2", S, p1, p2))
    for kind, S, p1, p2 in cases:
        bits = bits_of(S)

        def build(space, a_, b_, kind=kind, p1=p1, p2=p2, bits=bits):
            if kind == "bitmap":
                return MultiVector({bits: a_}, space), a_
            if kind == "tuple1":
                return MultiVector({p1: a_}, space), parity(p1) * a_
            return MultiVector({p1: a_, p2: b_}, space), parity(p1) * a_ + parity(p2) * b_

        def harness(build=build):
            space, g = make_space(dim, "real")
            M, c = build(space, a, b)
            ref = MultiVector({}, space)
            return g, dict(M.data), bool(M), c, (M == ref), (M != ref)
        ex = Explorer(pre=[], max_paths=64, timeout_ms=10000)
        what = f"ctor dim={dim} {kind} {p1 if p1 is not None else bits}{'' if p2 is None else ' ' + str(p2)}"
        for path in ex.run(harness):
            if path.exc is not None:
                _viol(res, f"{what} raises", "ga-raises", f"{what}: raised {path.exc!r}")
                break
            g, data, truth, c, eq0, ne0 = path.result
            res.path_assertions += 1
            cterm = sym.to_term(c, "real") if hasattr(sym, "to_term") else c.term
            nz = cterm != 0
            stored = data.get(bits, 0)
            goal = z3.And(sym.eq_term(stored, c, "real"), z3.BoolVal(bool(truth)) == nz,
                          z3.BoolVal(bool(eq0)) == z3.Not(nz), z3.BoolVal(bool(ne0)) == nz,
                          z3.BoolVal(set(data) <= {bits}))
            verdict, model = q.valid(path.pc, goal)
            if verdict == "unsat":
                continue
            if verdict == "unknown":
                res.status = "inconclusive"
                continue
            vals = _model_vals(model, g, {"a": a, "b": b})
            space = _concrete_space(dim, vals)
            Mc, cc = build(space, vals["a"], vals["b"])
            refc = MultiVector({}, space)
            ok = (Mc.data.get(bits, 0) == cc and bool(Mc) == (cc != 0) and (Mc == refc) == (cc == 0)
                  and (Mc != refc) == (cc != 0) and set(Mc.data) <= {bits})
            if ok:
                raise HarnessError(f"{what}: counterexample did not reproduce with {vals}")
            _viol(res, what, "ga-ctor",
                  f"{what} with {vals}: data={ {k_: str(v) for k_, v in Mc.data.items()} } bool={bool(Mc)} "
                  f"==0:{Mc == refc} !=0:{Mc != refc}; signed coefficient sum is {cc}")
            return H.finish(res, stats + [ex.stats], q)
        stats.append(ex.stats)
    return H.finish(res, stats, q)


def check_bitkernels(nbits, tier):
    """bit_count, canonical_reordering_sign, _shared_metric_coeff on symbolic bitmaps (loops run out by forking)"""
    from pymbolic.geometric_algebra import _shared_metric_coeff, bit_count, canonical_reordering_sign, permutation_sign
    sym.set_family("bv")
    res = ItemResult(item=f"bit kernels {nbits} bits", sample={"bits": nbits})
    q = Query()
    stats = []
    hi = (1 << nbits) - 1
    a, ca = sym.var("a", "bv", 0, hi)
    b, cb = sym.var("b", "bv", 0, hi)

    def popcount(t):
        return z3.Sum([z3.ZeroExt(63, z3.Extract(i, i, t)) for i in range(nbits)]) if nbits else z3.BitVecVal(0, 64)

    # bit_count
    ex = Explorer(pre=ca, max_paths=BOUNDS[tier]["max_paths"], timeout_ms=10000)
    for path in ex.run(lambda: bit_count(a)):
        res.path_assertions += 1
        if path.exc is not None:
            raise HarnessError(f"bit_count: {path.exc!r}")
        verdict, model = q.valid(path.pc, sym.to_term(path.result, "bv") == z3.BV2Int(popcount(a.term)) if False else
                                 sym.eq_term(path.result, sym.SymBV(popcount(a.term), 0, nbits), "bv"))
        if verdict == "sat":
            v = sym.model_value(model, a)
            if bit_count(v) == bin(v).count("1"):
                raise HarnessError(f"bit_count counterexample did not reproduce: {v}")
            _viol(res, f"bit_count({v})", "ga-bit_count", f"bit_count({v}) = {bit_count(v)}, expected {bin(v).count('1')}")
            return H.finish(res, [ex.stats], q)
    stats.append(ex.stats)
    # canonical_reordering_sign: (-1)^(number of pairs i in a, j in b with i > j)
    ex = Explorer(pre=ca + cb, max_paths=BOUNDS[tier]["max_paths"], timeout_ms=10000)
    inv = z3.Sum([z3.If(z3.And(z3.Extract(i, i, a.term) == 1, z3.Extract(j, j, b.term) == 1), 1, 0)
                  for i in range(nbits) for j in range(nbits) if i > j]) if nbits > 1 else z3.IntVal(0)
    for path in ex.run(lambda: canonical_reordering_sign(a, b)):
        res.path_assertions += 1
        if path.exc is not None:
            raise HarnessError(f"canonical_reordering_sign: {path.exc!r}")
        r = path.result
        rt = sym.to_term(r, "bv") if isinstance(r, sym.Sym) else z3.BitVecVal(r, 64)
        goal = rt == z3.If(inv % 2 == 0, z3.BitVecVal(1, 64), z3.BitVecVal(-1, 64))
        verdict, model = q.valid(path.pc, goal)
        if verdict == "sat":
            va, vb = sym.model_value(model, a), sym.model_value(model, b)
            exp = (-1) ** sum(1 for i in range(nbits) for j in range(nbits) if i > j and va >> i & 1 and vb >> j & 1)
            if canonical_reordering_sign(va, vb) == exp:
                raise HarnessError(f"canonical_reordering_sign counterexample did not reproduce: {va} {vb}")
            _viol(res, f"canonical_reordering_sign({va},{vb})", "ga-reordering-sign",
                  f"canonical_reordering_sign({va}, {vb}) = {canonical_reordering_sign(va, vb)}, expected {exp}")
            return H.finish(res, stats + [ex.stats], q)
    stats.append(ex.stats)
    if not ex.complete:
        res.status = "inconclusive"
        res.note = "; ".join(ex.inconclusive_reasons[:1])
    # _shared_metric_coeff with symbolic bitmap and symbolic metric
    sym.set_family("bv")
    dim = nbits

    from pymbolic.geometric_algebra import Space

    def real_space(diag):
        # a real Space object (not a stand-in: the kernel may use any attribute of it)
        mm = np.zeros((dim, dim), dtype=object)
        for i_ in range(dim):
            mm[i_, i_] = diag[i_]
        return Space(dim, mm)
    gs = [sym.var(f"g{i}", "bv", -2, 2) for i in range(dim)]
    fs = real_space([g_[0] for g_ in gs])
    pre = ca + [c for _, cs_ in gs for c in cs_]
    ex = Explorer(pre=pre, max_paths=BOUNDS[tier]["max_paths"], timeout_ms=10000)
    for path in ex.run(lambda: _shared_metric_coeff(a, fs)):
        res.path_assertions += 1
        if path.exc is not None:
            if isinstance(path.exc, (AttributeError, TypeError, sym.Unsupported)):
                # the kernel uses an int method the proxies do not model: enumerate the bitmaps concretely instead
                res.note = f"_shared_metric_coeff not symbolically executable ({path.exc!r}); concrete enumeration used"
                for va in range(1 << nbits):
                    for gv in ([1, -1, 0, 2, 3, -2][:dim], [2, 3, -1, 1, -2, 1][:dim]):
                        fs2 = real_space(gv)
                        e2 = 1
                        for i in range(dim):
                            if va >> i & 1:
                                e2 *= gv[i]
                        res.path_assertions += 1
                        got = _shared_metric_coeff(va, fs2)
                        if got != e2:
                            _viol(res, f"_shared_metric_coeff({va}, diag{gv})", "ga-shared-metric",
                                  f"_shared_metric_coeff({va}, diag{gv}) = {got}, expected {e2}")
                            return H.finish(res, stats + [ex.stats], q)
                break
            raise HarnessError(f"_shared_metric_coeff: {path.exc!r}")
        exp = z3.BitVecVal(1, 64)
        for i in range(dim):
            exp = exp * z3.If(z3.Extract(i, i, a.term) == 1, gs[i][0].term, z3.BitVecVal(1, 64))
        r = path.result
        rt = r.term if isinstance(r, sym.Sym) else z3.BitVecVal(r, 64)
        verdict, model = q.valid(path.pc, rt == exp)
        if verdict == "sat":
            va = sym.model_value(model, a)
            gv = [sym.model_value(model, g_[0]) for g_ in gs]
            fs2 = real_space(gv)
            e2 = 1
            for i in range(dim):
                if va >> i & 1:
                    e2 *= gv[i]
            if _shared_metric_coeff(va, fs2) == e2:
                raise HarnessError(f"_shared_metric_coeff counterexample did not reproduce {va} {gv}")
            _viol(res, f"_shared_metric_coeff({va}, diag{gv})", "ga-shared-metric",
                  f"_shared_metric_coeff({va}, diag{gv}) = {_shared_metric_coeff(va, fs2)}, expected {e2}")
            return H.finish(res, stats + [ex.stats], q)
    stats.append(ex.stats)
    # permutation_sign on all permutations up to size 5 (concrete)
    for n in range(0, 6):
        for perm in itertools.permutations(range(n)):
            res.path_assertions += 1
            invs = sum(1 for i in range(n) for j in range(i + 1, n) if perm[i] > perm[j])
            if permutation_sign(perm) != (-1) ** invs:
                _viol(res, f"permutation_sign({perm})", "ga-permutation-sign",
                      f"permutation_sign({perm}) = {permutation_sign(perm)}, expected {(-1) ** invs}")
                return H.finish(res, stats, q)
    return H.finish(res, stats, q)


def items(tier):
    dims = range(0, 4) if tier == "quick" else range(0, 5)
    out = []
    for d in dims:
        out += [("pairs", d), ("assoc", d), ("unary", d), ("compare", d), ("ctor", d)]
    if tier == "thorough":
        out.append(("pairs", 5))
    out += [("bilinear", 0), ("bilinear", 1)]
    out += [("bilinear", 2, mi, pn, si) for mi in range(2 if tier == "quick" else 16) for pn in ["*", "^", "|", "<<", ">>"]
            for si in range(4 if tier == "quick" else 36)]
    out += [("bits", 3), ("bits", 4)] + ([("bits", 6)] if tier == "thorough" else [])
    return out


def twins(tier):
    return [("twin_pairs", 2)]


def check_item(item, tier):
    k = item[0]
    if k == "pairs":
        return check_pairs(item[1], tier)
    if k == "twin_pairs":
        return check_pairs(item[1], tier, twin=True)
    if k == "assoc":
        return check_assoc(item[1], tier)
    if k == "unary":
        return check_unary(item[1], tier)
    if k == "bilinear":
        return check_bilinear(item[1], tier, *(item[2:] if len(item) > 2 else ()))
    if k == "compare":
        return check_compare(item[1])
    if k == "ctor":
        return check_ctor(item[1], tier)
    if k == "bits":
        return check_bitkernels(item[1], tier)
    raise ValueError(item)
