"""C03 — operator overloading builds trees that mean what the operators mean.

A *program* is a Python lambda over named atoms.  It is run twice inside one
explored path: on pymbolic Variables (building a tree with the real overloaded
operators, which is then evaluated by the uncached evaluator in a symbolic
environment) and directly on the environment's proxies.  z3 decides equality for
every environment and every value of the symbolic constant `c`."""
from __future__ import annotations

import operator as op

import z3

import pymbolic.primitives as p
from pv import harness as H
from pv.common import ItemResult, Violation
from pv.engine import sym
from pv.engine.explore import Explorer, HarnessError, Query

BOUNDS = {"quick": {"programs": "all (binary op, left kind, right kind), unary ops, constructor methods, 3-atom chains over + - *",
                    "symbolic_constant": "c: unbounded Int (bv family: -32..31)", "matrix_family": "2x2 symbolic integer matrices, <=4 factors",
                    "max_paths": 256, "solver_timeout_ms": 10000},
          "thorough": {"programs": "quick + 3-atom chains over all arithmetic ops + (kind op kind) op kind", "max_paths": 1024,
                       "solver_timeout_ms": 60000}}
ASSUMPTIONS = ["floats are exact reals", "environment callables/arrays are uninterpreted functions",
               "values outside the plain computation's domain (ZeroDivisionError, TypeError) are not constrained"]
RULE = ("one item per operator program; distinct by program text and family; non-trivial = the plain computation "
        "returned a value on >= 1 path and was compared with the tree's value")

BINOPS = {"+": op.add, "-": op.sub, "*": op.mul, "/": op.truediv, "//": op.floordiv, "%": op.mod,
          "**": op.pow, "<<": op.lshift, ">>": op.rshift, "&": op.and_, "|": op.or_, "^": op.xor}
BITOPS = {"<<", ">>", "&", "|", "^", "~"}
UNOPS = {"neg": op.neg, "pos": op.pos, "inv": op.invert, "abs": abs}

# operand kinds: name -> (lambda over atom-dict A with suffix s, atoms used: (name, type))
EXPR_KINDS = {
    "var": (lambda A, s: A["x" + s], [("x", "num")]),
    "sum": (lambda A, s: A["x" + s] + A["y" + s], [("x", "num"), ("y", "num")]),
    "prod": (lambda A, s: A["x" + s] * A["y" + s], [("x", "num"), ("y", "num")]),
    "quot": (lambda A, s: A["x" + s] / A["y" + s], [("x", "num"), ("y", "num")]),
    "fdiv": (lambda A, s: A["x" + s] // A["y" + s], [("x", "num"), ("y", "num")]),
    "mod": (lambda A, s: A["x" + s] % A["y" + s], [("x", "num"), ("y", "num")]),
    "pow": (lambda A, s: A["x" + s] ** 2, [("x", "num")]),
    "neg": (lambda A, s: -A["x" + s], [("x", "num")]),
    "sub": (lambda A, s: A["a" + s][A["x" + s]], [("a", "arr"), ("x", "num")]),
    "call": (lambda A, s: A["f" + s](A["x" + s]), [("f", "fn"), ("x", "num")]),
    "lsh": (lambda A, s: A["x" + s] << 1, [("x", "num")]),
    # subscripting twice (a row of a nested container) and a two-index subscript
    "subsub": (lambda A, s: A["n" + s][A["x" + s]][A["y" + s]], [("n", "nest"), ("x", "num"), ("y", "num")]),
    "sub2ix": (lambda A, s: A["n" + s][A["x" + s], A["y" + s]], [("n", "nest"), ("x", "num"), ("y", "num")]),
    "call0": (lambda A, s: A["f" + s](), [("f", "fn")]),
    # trees that pymbolic's own zero test (bool(node)) considers zero or that contain such a piece
    "zfdiv": (lambda A, s: 0 // A["x" + s], [("x", "num")]),
    "zmod": (lambda A, s: 0 % A["x" + s], [("x", "num")]),
    "zquot": (lambda A, s: 0 / A["x" + s], [("x", "num")]),
    "subz": (lambda A, s: 3 - 0 // A["x" + s], [("x", "num")]),
    "subzm": (lambda A, s: A["y" + s] - 0 % A["x" + s], [("x", "num"), ("y", "num")]),
    "prodz": (lambda A, s: A["y" + s] * (0 // A["x" + s]), [("x", "num"), ("y", "num")]),
}
CONST_KINDS = {"0": 0, "1": 1, "-1": -1, "2": 2, "0.0": 0.0, "1.0": 1.0, "0.5": 0.5, "True": True, "False": False, "c": "c"}
QUICK_EXPR = list(EXPR_KINDS)


def _atoms_for(kind, s):
    if kind in EXPR_KINDS:
        return [(n + s, t) for n, t in EXPR_KINDS[kind][1]]
    if kind == "c":
        return [("c" + s, "const")]
    return []


def items(tier):
    out = []
    kinds = list(EXPR_KINDS) + list(CONST_KINDS)
    for o in BINOPS:
        for lk in kinds:
            for rk in kinds:
                if lk in CONST_KINDS and rk in CONST_KINDS:
                    continue
                if o == "**" and rk in EXPR_KINDS and rk != "var":
                    continue   # symbolic exponents: only a bare variable (small range)
                out.append(("bin", o, lk, rk, "intbv"))
    # rational environments: arithmetic operators only
    for o in ["+", "-", "*", "/", "//", "%", "**"]:
        for lk in ["var", "sum", "prod", "quot"] + list(CONST_KINDS):
            for rk in ["var", "sum", "prod", "quot"] + list(CONST_KINDS):
                if lk in CONST_KINDS and rk in CONST_KINDS:
                    continue
                if o == "**" and rk in EXPR_KINDS:
                    continue
                out.append(("bin", o, lk, rk, "real"))
    for u in UNOPS:
        for k in EXPR_KINDS:
            out.append(("un", u, k))
    for m in ["eq", "ne", "lt", "le", "gt", "ge", "and_", "or_", "not_"]:
        for lk in ["var", "sum", "prod", "sub"]:
            for rk in ["var", "sum", "0", "1", "c"]:
                out.append(("ctor", m, lk, rk))
                if m == "not_":
                    break
    # chains of the logical constructor methods (receiver / argument is itself a logical node)
    for m1 in ["and_", "or_", "not_"]:
        for m2 in ["and_", "or_", "not_"]:
            for grp in "LR":
                out.append(("ctor2", m1, m2, grp))
    # a logical constructor method applied to the result of a comparison method
    for cm in ["eq", "ne", "lt", "le", "gt", "ge"]:
        for m2 in ["not_", "and_", "or_"]:
            out.append(("ctor3", cm, m2))
    chain_ops = ["+", "-", "*"] if tier == "quick" else ["+", "-", "*", "/", "//", "%"]
    atoms = ["v", "0", "1", "-1", "c"]
    for o1 in chain_ops:
        for o2 in chain_ops:
            for grp in "LR":
                for a in atoms:
                    for b in atoms:
                        for c_ in atoms:
                            if "v" not in (a, b, c_):
                                continue
                            out.append(("chain", o1, o2, grp, a, b, c_))
    # non-commutative family: 2x2 matrices
    for o1 in ["+", "*"]:
        for o2 in ["+", "*"]:
            for o3 in ["+", "*"]:
                for shape in ["((a.b).c).d", "(a.b).(c.d)", "a.((b.c).d)", "a.(b.(c.d))", "(a.(b.c)).d"]:
                    out.append(("mat", o1, o2, o3, shape))
    for k1 in ["var", "sum", "prod", "quot", "sub", "call", "0", "1", "c"]:
        for k2 in ["var", "sum", "prod", "quot", "sub", "call", "0", "1", "c"]:
            if k1 in CONST_KINDS and k2 in CONST_KINDS:
                continue
            out.append(("order", k1, k2))
    for k1 in ["nan", "nanf", "cmpnode", "ifnode", "cse", "lookup", "lnot", "power", "fdiv", "bor", "slice", "minn", "deriv", "fsym"]:
        for k2 in ["var", "0", "1", "sum", "nan"]:
            out.append(("order", k1, k2))
            out.append(("order", k2, k1))
    return out


def twins(tier):
    return [("twin", "sub_swapped"), ("twin", "mat_swapped")]


# {{{ nested containers: a[i][j] is one function, a[i, j] another

class Nested:
    def __init__(self, name, fam, model=None):
        self.name, self.fam, self.model = name, fam, model
        self.rows = sym.UF(name + "[][]", fam)
        self.flat = sym.UF(name + "[,]", fam)

    def _f(self, uf):
        return sym.ConcreteUF(uf, self.model) if self.model is not None else uf

    def __getitem__(self, idx):
        if isinstance(idx, tuple):
            return self._f(self.flat)(*idx)
        outer = self

        class Row:
            def __getitem__(self_, j):
                if isinstance(j, tuple):
                    raise TypeError("row indexed by a tuple")
                return outer._f(outer.rows)(idx, j)
        return Row()

# }}}


# {{{ 2x2 matrices of proxies (non-commutative ring)

class Mat2:
    __hash__ = None

    def __init__(self, a, b, c, d):
        self.e = (a, b, c, d)

    def __mul__(self, o):
        if isinstance(o, Mat2):
            a, b, c, d = self.e
            e, f, g, h = o.e
            return Mat2(a * e + b * g, a * f + b * h, c * e + d * g, c * f + d * h)
        if isinstance(o, (int, sym.Sym)):
            return Mat2(*[x * o for x in self.e])
        return NotImplemented

    def __rmul__(self, o):
        if isinstance(o, (int, sym.Sym)):
            return Mat2(*[o * x for x in self.e])
        return NotImplemented

    def __add__(self, o):
        if isinstance(o, Mat2):
            return Mat2(*[x + y for x, y in zip(self.e, o.e)])
        if isinstance(o, int) and o == 0:
            return self
        return NotImplemented

    __radd__ = __add__

    def __neg__(self):
        return Mat2(*[-x for x in self.e])

    def __sub__(self, o):
        return self + (-o)

    def __eq__(self, o):
        raise TypeError("use eq_term")

    def __repr__(self):
        return f"Mat2{self.e}"


def mat_eq_term(a, b):
    if not (isinstance(a, Mat2) and isinstance(b, Mat2)):
        raise sym.Mismatch("matrix vs scalar")
    return z3.And(*[sym.eq_term(x, y, "int") for x, y in zip(a.e, b.e)])

# }}}


def _family(item):
    if item[0] == "bin":
        o, lk, rk, famsel = item[1:]
        if famsel == "real":
            return "real"
        if o in BITOPS or "lsh" in (lk, rk):
            return "bv"
        return "int"
    if item[0] == "un":
        return "bv" if item[1] == "inv" or item[2] == "lsh" else "int"
    return "int"


def _mk_atoms(atom_list, fam):
    """-> (tree_atoms, plain_atoms, env, pre, consts)"""
    tree, plain, env, pre, consts = {}, {}, {}, [], {}
    for name, typ in atom_list:
        if typ == "const":
            lo, hi = (-32, 31) if fam == "bv" else (None, None)
            v, cs = sym.var(name, "bv" if fam == "bv" else "int", lo, hi)
            pre += cs
            tree[name] = plain[name] = v
            consts[name] = v
            continue
        tree[name] = p.Variable(name)
        if typ == "num":
            lo, hi = H.NUM_RANGE[fam]
            v, cs = sym.var(name, fam, lo, hi)
        elif typ == "fn":
            v, cs = sym.UF(name, fam), []
        elif typ == "arr":
            v, cs = sym.UFArray(name, fam), []
        elif typ == "nest":
            v, cs = Nested(name, fam), []
        elif typ == "mat":
            es = []
            cs = []
            for i in range(4):
                e, c = sym.var(f"{name}{i}", "int")
                es.append(e)
            v = Mat2(*es)
        else:
            raise ValueError(typ)
        pre += cs
        env[name] = v
        plain[name] = v
    env["abs"] = abs     # abs(expr) builds a call to the function named "abs"
    return tree, plain, env, pre, consts


def _operand(kind, A, s):
    if kind in EXPR_KINDS:
        return EXPR_KINDS[kind][0](A, s)
    v = CONST_KINDS[kind]
    return A["c" + s] if v == "c" else v


def _program(item):
    """-> (text, atom_list, fn(A))"""
    t = item[0]
    if t == "bin":
        o, lk, rk = item[1:4]
        f = BINOPS[o]
        return (f"{lk} {o} {rk}", _atoms_for(lk, "1") + _atoms_for(rk, "2"),
                lambda A: f(_operand(lk, A, "1"), _operand(rk, A, "2")))
    if t == "un":
        u, k = item[1:]
        f = UNOPS[u]
        return (f"{u}({k})", _atoms_for(k, "1"), lambda A: f(_operand(k, A, "1")))
    if t == "chain":
        o1, o2, grp, a, b, c_ = item[1:]
        f1, f2 = BINOPS[o1], BINOPS[o2]
        names = {}
        atom_list = []
        for i, k in enumerate((a, b, c_)):
            if k == "v":
                atom_list.append((f"x{i}", "num"))
            elif k == "c":
                atom_list.append((f"c{i}", "const"))

        def get(A, i, k):
            if k == "v":
                return A[f"x{i}"]
            if k == "c":
                return A[f"c{i}"]
            return int(k)
        if grp == "L":
            fn = lambda A: f2(f1(get(A, 0, a), get(A, 1, b)), get(A, 2, c_))  # noqa: E731
            text = f"({a} {o1} {b}) {o2} {c_}"
        else:
            fn = lambda A: f1(get(A, 0, a), f2(get(A, 1, b), get(A, 2, c_)))  # noqa: E731
            text = f"{a} {o1} ({b} {o2} {c_})"
        return text, atom_list, fn
    raise ValueError(item)


def _eval_tree(tree, env):
    from pymbolic.mapper.evaluator import EvaluationMapper
    if isinstance(tree, p.Expression):
        return EvaluationMapper(env)(tree)
    return tree


def _run_program(text, atom_list, fn, fam, tier, res, eq=None, sig_prefix="", twin_fn=None):
    sym.set_family(fam)
    tree_atoms, plain_atoms, env, pre, consts = _mk_atoms(atom_list, fam)

    def harness():
        plain = H.outcome(lambda: (twin_fn or fn)(plain_atoms))
        built = H.outcome(lambda: fn(tree_atoms))
        if built[0] == "exc":
            return plain, built, None
        val = H.outcome(lambda: _eval_tree(built[1], env))
        return plain, built, val

    ex = Explorer(pre=pre, max_paths=BOUNDS[tier]["max_paths"], timeout_ms=BOUNDS[tier]["solver_timeout_ms"])
    q = Query(timeout_ms=BOUNDS[tier]["solver_timeout_ms"])
    reached = 0
    for path in ex.run(harness):
        if path.exc is not None:
            if isinstance(path.exc, sym.Unsupported):
                res.status = "refused"
                res.note = str(path.exc)
                res.nontrivial = False
                break
            raise HarnessError(f"harness raised {path.exc!r} in {text}")
        plain, built, val = path.result
        if plain[0] == "exc":
            continue     # plain computation undefined here: nothing required
        why = None
        model = None
        goal = None
        if built[0] == "exc":
            if isinstance(built[1], TypeError):
                res.note = "refusal (TypeError) while building"
                continue
            why = f"building the tree {H.show_outcome(built)}"
        elif val[0] == "exc":
            why = f"plain computation gives {H.show_outcome(plain)} but evaluating the tree {H.show_outcome(val)}"
        else:
            reached += 1
            res.path_assertions += 1
            try:
                goal = (eq or (lambda a, b: sym.eq_term(a, b, fam)))(val[1], plain[1])
            except sym.Mismatch as e:
                goal = None
                why = f"structural mismatch {e}"
            if goal is not None:
                verdict, model = q.valid(path.pc, goal)
                if verdict == "unsat":
                    continue
                if verdict == "unknown":
                    res.status = "inconclusive"
                    res.note = "solver unknown"
                    continue
                why = "value differs"
        # replay with plain python values
        if model is None:
            model = H.path_model(pre, path.pc)
        exact = fam == "real" or " / " in text or "quot" in text or "**" in text
        cenv = _concretise(env, model, exact)
        cconsts = {k: sym.model_value(model, v) for k, v in consts.items()}
        c_tree = {k: (cconsts[k] if k in cconsts else p.Variable(k)) for k in tree_atoms}
        c_plain = {k: (cconsts[k] if k in cconsts else cenv[k]) for k in plain_atoms}
        o_plain = H.outcome(lambda: (twin_fn or fn)(c_plain))
        o_tree = H.outcome(lambda: _eval_tree(fn(c_tree), cenv))
        differs = (o_plain[0] == "val" and (o_tree[0] == "exc" and not isinstance(o_tree[1], TypeError)
                                            or o_tree[0] == "val" and not _ceq(o_tree[1], o_plain[1])))
        envtxt = ", ".join(f"{k}={v}" for k, v in sorted({**_show_env(cenv), **cconsts}.items()))
        if not differs and goal is not None and "pow(" in str(goal):
            # the symbolic difference goes through the uninterpreted general power: look for a concrete witness on a
            # small grid (the real pow decides); none found = inconclusive, never a violation
            import itertools as _it
            names = [k for k, v_ in cenv.items() if isinstance(v_, (int, float)) or type(v_).__name__ == "Fraction"][:3]
            for vals in _it.product((-3, -2, -1, 0, 1, 2, 3), repeat=len(names)):
                cenv2 = dict(cenv)
                cenv2.update(dict(zip(names, vals)))
                c_plain2 = {k: (cconsts[k] if k in cconsts else cenv2[k]) for k in plain_atoms}
                o_plain = H.outcome(lambda: (twin_fn or fn)(c_plain2))
                o_tree = H.outcome(lambda: _eval_tree(fn(c_tree), cenv2))
                if (o_plain[0] == "val" and not isinstance(o_plain[1], complex) and o_tree[0] == "val"
                        and not isinstance(o_tree[1], complex) and not _ceq(o_tree[1], o_plain[1])
                        and abs(complex(o_tree[1]) - complex(o_plain[1])) > 1e-9):
                    differs, cenv = True, cenv2
                    envtxt = ", ".join(f"{k}={v}" for k, v in sorted({**_show_env(cenv), **cconsts}.items()))
                    break
            if not differs:
                res.status = "inconclusive" if res.status == "ok" else res.status
                res.note = "counterexample depends on the uninterpreted general power; no concrete witness on the grid"
                continue
        if not differs:
            raise HarnessError(f"counterexample did not reproduce: {text} [{fam}] {envtxt}: {why}; "
                               f"plain {H.show_outcome(o_plain)} tree {H.show_outcome(o_tree)}")
        res.status = "violation"
        kind = "build-exception" if o_tree[0] == "exc" else "value"
        res.violations.append(Violation(
            sig=f"{sig_prefix}{text} [{fam}] :: {kind}",
            kind=f"overload-{kind}-{text.split()[1] if len(text.split()) > 1 else text}",
            detail=f"program `{text}` with {envtxt}: plain {H.show_outcome(o_plain)}; tree {H.show_outcome(o_tree)}",
            replay={"program": text, "family": fam, "env": envtxt}))
    if not ex.complete and res.status == "ok":
        res.status = "inconclusive"
        res.note = "; ".join(ex.inconclusive_reasons[:2])
    if reached == 0 and res.status == "ok":
        res.nontrivial = False
    return H.finish(res, [ex.stats], q)


def _ceq(a, b):
    if isinstance(a, Mat2) or isinstance(b, Mat2):
        return isinstance(a, Mat2) and isinstance(b, Mat2) and all(x == y for x, y in zip(a.e, b.e))
    return H.concrete_equal(a, b)


def _show_env(cenv):
    return {k: (v.e if isinstance(v, Mat2) else v) for k, v in cenv.items()
            if not callable(v) and not hasattr(v, "_f")}


def _concretise(env, model, exact):
    out = {}
    for k, v in env.items():
        if isinstance(v, Mat2):
            out[k] = Mat2(*[sym.model_value(model, e) for e in v.e])
        elif isinstance(v, Nested):
            out[k] = Nested(v.name, v.fam, model)
            out[k].rows, out[k].flat = v.rows, v.flat
        else:
            out.update(H.concretise_env({k: v}, model, exact=exact))
    return out


def _mat_program(item):
    o1, o2, o3, shape = item[1:]
    f = {"+": op.add, "*": op.mul}
    ops = iter([f[o1], f[o2], f[o3]])
    # shape uses '.' for the operators in reading order
    names = ["a", "b", "c", "d"]
    src = shape
    for o in (o1, o2, o3):
        src = src.replace(".", f" {o} ", 1)
    code = compile(src, "<mat>", "eval")
    return src, [(n, "mat") for n in names], lambda A: eval(code, {}, dict(A))


def check_item(item, tier):
    t = item[0]
    if t in ("bin", "un", "chain"):
        text, atom_list, fn = _program(item)
        fam = _family(item)
        res = ItemResult(item=f"{text} [{fam}]", sample={"program": text, "family": fam})
        return _run_program(text, atom_list, fn, fam, tier, res)
    if t == "mat":
        text, atom_list, fn = _mat_program(item)
        res = ItemResult(item=f"mat: {text}", sample={"program": text, "family": "2x2 matrices"})
        return _run_program(text, atom_list, fn, "int", tier, res, eq=mat_eq_term, sig_prefix="mat: ")
    if t == "ctor2":
        return _check_ctor2(item, tier)
    if t == "ctor3":
        return _check_ctor3(item, tier)
    if t == "ctor":
        return _check_ctor(item, tier)
    if t == "order":
        return _check_order(item)
    if t == "twin":
        res = ItemResult(item=f"twin {item[1]}")
        if item[1] == "sub_swapped":
            return _run_program("var - sum", _atoms_for("var", "1") + _atoms_for("sum", "2"),
                                lambda A: _operand("var", A, "1") - _operand("sum", A, "2"), "int", tier, res,
                                twin_fn=lambda A: _operand("sum", A, "2") - _operand("var", A, "1"))
        return _run_program("a * b", [("a", "mat"), ("b", "mat")], lambda A: A["a"] * A["b"], "int", tier, res,
                            eq=mat_eq_term, twin_fn=lambda A: A["b"] * A["a"])
    raise ValueError(item)


_CT = {"eq": op.eq, "ne": op.ne, "lt": op.lt, "le": op.le, "gt": op.gt, "ge": op.ge}


def _check_ctor(item, tier):
    m, lk, rk = item[1:]
    text = f"{lk}.{m}({rk})" if m != "not_" else f"{lk}.not_()"
    res = ItemResult(item=text, sample={"program": text})
    atom_list = _atoms_for(lk, "1") + (_atoms_for(rk, "2") if m != "not_" else [])

    def fn(A):
        l = _operand(lk, A, "1")
        if m == "not_":
            return l.not_() if isinstance(l, p.Expression) else (not l)
        r = _operand(rk, A, "2")
        if isinstance(l, p.Expression):
            return getattr(l, m)(r)
        if m in _CT:
            return _CT[m](l, r)
        if m == "and_":
            return bool(l) and bool(r)
        return bool(l) or bool(r)

    def eq(a, b):
        return sym.truth_term(a) == sym.truth_term(b)
    return _run_program(text, atom_list, fn, "int", tier, res, eq=eq)


def _logic(m, l, r=None):
    if isinstance(l, p.Expression):
        return l.not_() if m == "not_" else getattr(l, m)(r)
    if m == "not_":
        return not l
    if isinstance(r, p.Expression):       # plain receiver, tree argument: build the node the method would build
        return (p.LogicalAnd if m == "and_" else p.LogicalOr)((l, r))
    return (bool(l) and bool(r)) if m == "and_" else (bool(l) or bool(r))


def _check_ctor2(item, tier):
    m1, m2, grp = item[1:]
    if grp == "L":
        text = f"(x1.{m1}({'x2' if m1 != 'not_' else ''})).{m2}({'x3' if m2 != 'not_' else ''})"
    else:
        text = f"x1.{m1}(x2.{m2}({'x3' if m2 != 'not_' else ''}))" if m1 != "not_" else f"(x2.{m2}({'x3' if m2 != 'not_' else ''})).not_()"
    res = ItemResult(item=text, sample={"program": text})
    atom_list = [("x1", "num"), ("x2", "num"), ("x3", "num")]

    def fn(A):
        x1, x2, x3 = A["x1"], A["x2"], A["x3"]
        if grp == "L":
            return _logic(m2, _logic(m1, x1, x2), x3)
        inner = _logic(m2, x2, x3)
        return _logic(m1, x1, inner) if m1 != "not_" else _logic("not_", inner)

    def eq(a, b):
        return sym.truth_term(a) == sym.truth_term(b)
    return _run_program(text, atom_list, fn, "int", tier, res, eq=eq)


def _check_ctor3(item, tier):
    cm, m2 = item[1:]
    text = f"x1.{cm}(x2).{m2}({'x3' if m2 != 'not_' else ''})"
    res = ItemResult(item=text, sample={"program": text})
    atom_list = [("x1", "num"), ("x2", "num"), ("x3", "num")]

    def fn(A):
        x1, x2, x3 = A["x1"], A["x2"], A["x3"]
        c = getattr(x1, cm)(x2) if isinstance(x1, p.Expression) else _CT[cm](x1, x2)
        return _logic(m2, c, x3)

    def eq(a, b):
        return sym.truth_term(a) == sym.truth_term(b)
    return _run_program(text, atom_list, fn, "int", tier, res, eq=eq)


def _check_order(item):
    k1, k2 = item[1:]
    text = f"ordering {k1} ? {k2}"
    res = ItemResult(item=text, sample={"program": text})
    A = {}
    for n, t in _atoms_for(k1, "1") + _atoms_for(k2, "2"):
        A[n] = 3 if t == "const" else p.Variable(n)
    x_, y_ = p.Variable("x"), p.Variable("y")
    extra = {"nan": p.NaN(), "nanf": p.NaN(float), "cmpnode": p.Comparison(x_, "<", y_), "ifnode": p.If(p.Comparison(x_, "<", y_), x_, y_),
             "cse": p.CommonSubexpression(x_ + y_), "lookup": p.Lookup(x_, "fld"), "lnot": p.LogicalNot(x_), "power": x_ ** y_,
             "fdiv": x_ // y_, "bor": p.BitwiseOr((x_, y_)), "slice": p.Slice((x_, y_)), "minn": p.Min((x_, y_)),
             "deriv": p.Derivative(x_, ("u",)), "fsym": p.FunctionSymbol() if hasattr(p, "FunctionSymbol") else p.Variable("fs")}
    l = extra[k1] if k1 in extra else _operand(k1, A, "1")
    r = extra[k2] if k2 in extra else _operand(k2, A, "2")
    res.paths = 1
    for nm, f in (("<", op.lt), ("<=", op.le), (">", op.gt), (">=", op.ge)):
        res.path_assertions += 1
        try:
            v = f(l, r)
        except TypeError:
            continue
        except Exception as e:  # noqa: BLE001
            v = e
        res.status = "violation"
        res.violations.append(Violation(sig=f"{k1} {nm} {k2} :: no TypeError", kind="ordering",
                                        detail=f"{l!r} {nm} {r!r} gave {v!r} instead of raising TypeError",
                                        replay={"left": repr(l), "right": repr(r), "op": nm}))
    return res
