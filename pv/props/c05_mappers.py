"""Mapper classes fed to pymbolic.mapper.optimize.optimize_mapper by the C05 check.
The optimizer reads *source files*, so these live in a module of their own."""
from __future__ import annotations

import pymbolic.primitives as p
from pymbolic.mapper import (CachedCollector, CachedIdentityMapper, CachedWalkMapper, Collector, IdentityMapper,
                             WalkMapper)


class OptRenamer(CachedIdentityMapper):
    """renames variables; constants are shifted so that 4 / 4.0 / True stay distinguishable"""

    def get_cache_key(self, expr, *args, **kwargs):
        return (type(expr), expr)

    def map_variable(self, expr, *args, **kwargs):
        return p.Variable("r_" + expr.name)

    def map_constant(self, expr, *args, **kwargs):
        return expr + 1


class PlainRenamer(IdentityMapper):
    def map_variable(self, expr, *args, **kwargs):
        return p.Variable("r_" + expr.name)

    def map_constant(self, expr, *args, **kwargs):
        return expr + 1


class OptArgRenamer(CachedIdentityMapper):
    """result depends on the extra argument"""

    def get_cache_key(self, expr, *args, **kwargs):
        return (type(expr), expr, args)

    def map_variable(self, expr, suffix, *args, **kwargs):
        return p.Variable(expr.name + suffix)


class PlainArgRenamer(IdentityMapper):
    def map_variable(self, expr, suffix, *args, **kwargs):
        return p.Variable(expr.name + suffix)


class OptCounter(CachedWalkMapper):
    """counts distinct subexpressions (returns None from every handler)"""

    def __init__(self):
        super().__init__()
        self.count = 0
        self.calls = 0

    def get_cache_key(self, expr, *args, **kwargs):
        return (type(expr), expr)

    def visit(self, expr, *args, **kwargs):
        self.calls += 1
        return True

    def post_visit(self, expr, *args, **kwargs):
        self.count += 1


class OptNames(CachedCollector):
    def get_cache_key(self, expr, *args, **kwargs):
        return (type(expr), expr)

    def map_variable(self, expr, *args, **kwargs):
        return {expr.name}

    def map_constant(self, expr, *args, **kwargs):
        return {(type(expr).__name__, repr(expr))}


class PlainNames(Collector):
    def map_variable(self, expr, *args, **kwargs):
        return {expr.name}

    def map_constant(self, expr, *args, **kwargs):
        return {(type(expr).__name__, repr(expr))}


class OptAliasMark(CachedIdentityMapper):
    """overrides map_quotient but not its base-class aliases map_floor_div / map_remainder (which stay identity)"""

    def get_cache_key(self, expr, *args, **kwargs):
        return (type(expr), expr)

    def map_quotient(self, expr, *args, **kwargs):
        return p.Variable("QUOT")

    def map_sum(self, expr, *args, **kwargs):
        return p.Variable("SUM")


class PlainAliasMark(IdentityMapper):
    def map_quotient(self, expr, *args, **kwargs):
        return p.Variable("QUOT")

    def map_sum(self, expr, *args, **kwargs):
        return p.Variable("SUM")
