"""C07 — the parser reads the syntax it shares with Python the way Python does.

Every string of the skeleton family is parsed by pymbolic (and imported from
Python's AST by ASTToPymbolic); the resulting tree is evaluated by the uncached
evaluator on z3 proxies, the same string is evaluated by CPython's own
`eval` on the same proxies, and z3 decides, per path, that both agree for
every environment."""
from __future__ import annotations

import ast
import itertools
import random
import re

import pymbolic.primitives as p
from pv import harness as H
from pv.common import ItemResult, Violation
from pv.engine import sym
from pv.engine.explore import Explorer, HarnessError, Query

BOUNDS = {"quick": {"operators_per_string": "<= 2 binary (+ prefix/ternary/call/subscript/tuple forms)",
                    "bv_range": H.NUM_RANGE["bv"], "max_paths": 256, "solver_timeout_ms": 10000},
          "thorough": {"operators_per_string": "<= 3 binary, prefix operators in every position, 2000 seeded longer strings",
                       "max_paths": 1024, "solver_timeout_ms": 30000}}
ASSUMPTIONS = ["CPython's parser/eval is the oracle", "floats are exact reals",
               "strings with and/or/not are compared by truth value (pymbolic's logical nodes return bool)",
               "symbolic exponents restricted to -2..3, shift amounts to <= 12 (recorded)",
               "numeric literal and identifier spellings are enumerated, not symbolic (regex lexer)"]
RULE = ("one item per source string; strings Python rejects are dropped; distinct by text; non-trivial = Python's eval "
        "returned a value on >= 1 path and was compared")

BIN = ["+", "-", "*", "/", "//", "%", "**", "<<", ">>", "&", "|", "^", "and", "or",
       "==", "!=", "<", "<=", ">", ">="]
UN = ["-", "+", "~", "not "]
NAMES = ["a", "b", "c", "d", "e", "g"]
LITERALS = ["0", "1", "10", "7", "1.", "1.5", ".5", "1e3", "1.5e-3", "1E3", "2.e2", "12345678901234567890",
            "True", "False", "1000", "00", "0.", "5.e0", "1E+3", "1e-0", "0.0e0",
            # Python numeric literals of the other kinds
            "1j", "2.5j", "1e2j", "0j", "0x10", "0XfF", "0o17", "0b101", "1_000", "1_0.5", "0_0", "1e1_0"]
# names that begin with a keyword / constant of the grammar
KEYWORDISH = ["Truex", "Falsey", "andy", "orb", "nota", "iffy", "elsez", "True_1", "notx", "ifelse"]


def _ok_python(s):
    try:
        ast.parse(s, mode="eval")
        return True
    except SyntaxError:
        return False


def gen_strings(tier):
    out = []
    a, b, c, d, e = NAMES[:5]
    for o in BIN:
        out.append(f"{a} {o} {b}")
    for u in UN:
        out.append(f"{u}{a}")
        for u2 in UN:
            out.append(f"{u}{u2}{a}")
        for o in BIN:
            out.append(f"{u}{a} {o} {b}")
            out.append(f"{a} {o} {u}{b}")
    for o1 in BIN:
        for o2 in BIN:
            out.append(f"{a} {o1} {b} {o2} {c}")
            out.append(f"({a} {o1} {b}) {o2} {c}")
            out.append(f"{a} {o1} ({b} {o2} {c})")
    for o in BIN:
        out += [f"{a} {o} {b} if {c} else {d}", f"{a} if {b} {o} {c} else {d}", f"{a} if {b} else {c} {o} {d}",
                f"f({a}) {o} {b}", f"{a} {o} f({b})", f"f({a} {o} {b})", f"f({a}, k={b} {o} {c})",
                f"f({a} {o} {b}, {c})", f"v[{a}] {o} {b}", f"{a} {o} v[{b}]", f"v[{a} {o} {b}]",
                f"o.fld {o} {a}", f"{a} {o} o.fld", f"{a}, {b} {o} {c}", f"{a} {o} {b}, {c}", f"m[{a}, {b} {o} {c}]",
                f"({a}, {b} {o} {c})", f"f({a}, {b}) {o} {c}"]
    for u in UN:
        out += [f"{u}f({a})", f"{u}v[{a}]", f"{u}o.fld", f"{u}{a} if {b} else {c}", f"{a} if {u}{b} else {c}",
                f"{a} if {b} else {u}{c}", f"f({u}{a})", f"v[{u}{a}]", f"{u}({a} + {b})", f"{u}{a}, {b}"]
    out += [f"{a} if {b} else {c} if {d} else {e}", f"({a} if {b} else {c}) if {d} else {e}",
            f"{a} if ({b} if {c} else {d}) else {e}", f"{a} if {b} else ({c} if {d} else {e})",
            f"{a} if {b} if {c} else {d} else {e}",
            f"f({a} if {b} else {c}, {d})", f"f({a}, {b} if {c} else {d})", f"f({a}, k={b} if {c} else {d})",
            f"f({a}, k={b}, j={c})", f"f(k={a})", "f()", f"f({a},)", f"f({a}, {b},)",
            f"{a}, {b}", f"({a}, {b})", f"({a},)", f"{a},", f"({a}, {b}),", f"(({a}, {b}),)", "()", f"({a})", f"(({a}))",
            f"{a}, {b}, {c}", f"({a}, {b}), {c}", f"{a}, ({b}, {c})", f"(), {a}", f"(),", f"(({a},),)",
            f"{a} if {b} else {c}, {d}", f"{a}, {b} if {c} else {d}",
            f"v[{a}]", f"m[{a}, {b}]", f"m[({a}, {b})]", f"v[v[{a}]]", f"v[{a}] [{b}]" if False else f"v[f({a})]",
            f"f(v[{a}])", f"f(f({a}))", f"o.fld", f"f(o.fld)", f"v[o.fld]", f"f({a}).real" if False else f"o.fld + o.other",
            f"{a} < {b} < {c}", f"{a} == {b} == {c}", f"{a} < {b} == {c}", f"{a} != {b} > {c}",
            f"{a}**{b}**{c}", f"-{a}**{b}", f"{a}**-{b}", f"-{a}**-{b}", f"~{a}**{b}", f"2**-1", f"{a} - -{b}", f"{a} + +{b}",
            f"{a} - {b} - {c}", f"{a} / {b} / {c}", f"{a} // {b} // {c}", f"{a} % {b} % {c}", f"{a} << {b} << {c}",
            f"{a} - ({b} - {c})", f"{a}-{b}", f"{a} -{b}", f"{a}*-{b}", f"{a}--{b}",
            f"not {a} == {b}", f"not {a} and {b}", f"not not {a}", f"{a} and not {b}", f"{a} or not {b} and {c}",
            f"{a} or {b} and {c}", f"{a} and {b} or {c}", f"{a} or {b} or {c}", f"{a} and {b} and {c}",
            ]
    out += LITERALS
    # parenthesised operands that are "zero-like" trees or literals
    for z in ["0", "0.0", "False", f"0 * {a}", f"0 // {b}", f"0 % {b}", f"{a} * 0", "1", f"0 / {b}"]:
        out += [f"({z})", f"{a} + ({z})", f"({z}) * {b}", f"f(({z}))", f"{a} - ({z}) - {c}", f"v[({z})]", f"(({z}))", f"({z}),"]
    # trailing commas in every bracket kind
    out += [f"v[{a},]", f"m[{a}, {b},]", f"f({a}, {b},)", f"({a}, {b},)", f"f({a}, k={b},)", f"v[({a},)]", f"m[({a}, {b},)]"]
    for nm in KEYWORDISH:
        out += [nm, f"{nm} + 1", f"{a} * {nm}", f"-{nm}", f"f({nm})", f"{a} if {nm} else {b}", f"{nm} and {a}", f"not {nm}"]
    for lit in LITERALS[21:]:
        out += [f"{lit} + {a}", f"{a} * {lit}", f"-{lit}", f"f({lit})"]
    for lit in ["1", "1.5", "10", "True"]:
        out += [f"{lit} + {a}", f"{a} * {lit}", f"{a} ** {lit}" if lit != "1.5" else f"{a} * {lit}", f"-{lit}", f"{a} - {lit}",
                f"{lit} - {a}", f"{a} // {lit}" if lit != "True" else f"{a} + {lit}", f"f({lit})", f"v[{lit}]" if lit != "1.5" else "v[2]"]
    # numeric literals as operands of prefix and binary operators (a lexer / parser may treat "-2" specially)
    for u in UN:
        for o in BIN:
            out += [f"{u}2 {o} {b}", f"{a} {o} {u}2", f"{u}2 {o} 3", f"{u}2{o if o.isalpha() is False else ' ' + o + ' '}3",
                    f"{u}1.5 {o} {b}", f"{u}True {o} {b}"]
    for o1 in BIN:
        for o2 in BIN:
            out.append(f"{a} {o1} -2 {o2} {b}")
            out.append(f"-2 {o1} {a} {o2} 3")
            if tier == "thorough":
                for u in UN[1:]:
                    out.append(f"{a} {o1} {u}2 {o2} {b}")
                out.append(f"{a} {o1} -2.5 {o2} {b}")
                out.append(f"{a} {o1} 2 {o2} -3")
    if tier == "thorough":
        for o1 in BIN:
            for o2 in BIN:
                for o3 in BIN:
                    out.append(f"{a} {o1} {b} {o2} {c} {o3} {d}")
                for u in UN:
                    out.append(f"{u}{a} {o1} {b} {o2} {c}")
                    out.append(f"{a} {o1} {u}{b} {o2} {c}")
                    out.append(f"{a} {o1} {b} {o2} {u}{c}")
        rnd = random.Random(20240607)
        for _ in range(2000):
            out.append(_random_string(rnd, rnd.randint(3, 6)))
    seen, res = set(), []
    for s in out:
        if s not in seen and _ok_python(s):
            seen.add(s)
            res.append(s)
    return res


def _random_string(rnd, nops):
    names = iter(NAMES + ["a", "b", "c"])
    toks = []

    def atom():
        r = rnd.random()
        n = next(names, "a")
        if r < 0.1:
            return f"f({n})"
        if r < 0.2:
            return f"v[{n}]"
        if r < 0.3:
            return rnd.choice(["1", "2", "3"])
        if r < 0.4:
            return rnd.choice(["-", "~", "not ", "+"]) + n
        return n
    toks.append(atom())
    for _ in range(nops):
        toks.append(rnd.choice(BIN))
        toks.append(atom())
    # random parenthesisation of one sub-range
    if rnd.random() < 0.7 and nops >= 2:
        i = rnd.randrange(0, nops) * 2
        j = rnd.randrange(i // 2 + 1, nops + 1) * 2
        toks[i] = "(" + toks[i]
        toks[j] = toks[j] + ")"
    return " ".join(toks)


def items(tier):
    return [("str", s) for s in gen_strings(tier)] + [("garbage", g) for g in GARBAGE]


GARBAGE = ["a b", "a + ", "a +* b" if False else "a + * b", "(a", "a)", "a ]", "f(a", "f(a,,b)", "a if b", "a if b else", "a,, b",
           "1 2", "a + b c", "v[a", "v[]", "a $" if False else "a ?", "f(k=a, b)", "not", "a and", "** a"]


def twins(tier):
    return [("twin", "a - b - c", "a - (b - c)"), ("twin", "a & b | c", "a & (b | c)")]


def _family(s):
    if re.search(r"<<|>>|&|\||\^|~", s):
        return "bv"
    return "int"


def _env(fam):
    env, pre = {}, []
    for n in NAMES + KEYWORDISH:
        v, cs = sym.var(n, fam, *H.NUM_RANGE[fam])
        env[n] = v
        pre += cs
    env["f"] = sym.UF("f", fam)
    env["v"] = sym.UFArray("v", fam)
    env["m"] = sym.UFArray("m", fam)
    env["o"] = sym.Record("o", fam)
    return env, pre


def _trees(s):
    """-> list of (path name, tree or exception)"""
    from pymbolic import parse
    from pymbolic.interop.ast import ASTToPymbolic
    out = []
    try:
        out.append(("parse", parse(s)))
    except Exception as e:  # noqa: BLE001
        out.append(("parse", e))
    try:
        out.append(("ast-import", ASTToPymbolic()(ast.parse(s, mode="eval").body)))
    except Exception as e:  # noqa: BLE001
        out.append(("ast-import", e))
    return out


def _evaluate(tree, env):
    from pymbolic.mapper.evaluator import EvaluationMapper
    return EvaluationMapper(env)(tree)


class _BoolOpToBool(ast.NodeTransformer):
    """pymbolic's logical nodes denote truth values: `a and b` means bool(a and b).
    The oracle therefore evaluates Python's own parse with every BoolOp wrapped in bool()."""

    def visit_BoolOp(self, node):
        self.generic_visit(node)
        return ast.Call(func=ast.Name(id="__bool", ctx=ast.Load()), args=[node], keywords=[])


def _oracle_code(src):
    tree = ast.parse(src, mode="eval")
    tree = ast.fix_missing_locations(_BoolOpToBool().visit(tree))
    return compile(tree, "<c07>", "eval")


CMP_RE = r"(==|!=|<=|>=|<(?!<)|>(?!>))"


def classify(s, tname):
    """root-cause class of a deviation (for grouping known findings; the signature list is what counts)"""
    if tname == "ast-import":
        return "ast-import"
    # flatten nesting: every innermost (...) / [...] group becomes its own segment, replaced by an atom
    levels = []
    cur = s
    while True:
        m = re.search(r"[\w.]*[(\[]([^()\[\]]*)[)\]]", cur)
        if not m:
            break
        levels.append(m.group(1))
        cur = cur[:m.start()] + "X" + cur[m.end():]
    levels.append(cur)
    segs = []
    for lv in levels:
        segs += re.split(r"\band\b|\bor\b|,|\bif\b|\belse\b", lv)
    causes = []
    for g in segs:
        g2 = re.sub(r"<<|>>", "@", g)
        ncmp = len(re.findall(CMP_RE, g2))
        if re.search(r"(-|~)\s*[\w.]+\s*\*\*", g):
            causes.append("unary-minus-or-invert-binds-tighter-than-power")
        if re.search(r"\bnot\b\s*\S+\s*[^\s\w]", g):
            causes.append("not-binds-tighter-than-comparison-and-arithmetic")
        if ncmp >= 2:
            causes.append("chained-comparison")
        if ncmp >= 1 and re.search(r"&|\||\^", g):
            causes.append("bitwise-operators-bind-looser-than-comparison")
        if "|" in g and "^" in g:
            causes.append("bitor-and-bitxor-share-a-level")
        if re.search(r"\*(?!\*)[^*]*?(//|%|/)", g):
            causes.append("right-operand-of-times-parsed-at-sum-level")
    for c in ["chained-comparison", "not-binds-tighter-than-comparison-and-arithmetic",
              "right-operand-of-times-parsed-at-sum-level", "unary-minus-or-invert-binds-tighter-than-power",
              "bitwise-operators-bind-looser-than-comparison", "bitor-and-bitxor-share-a-level"]:
        if c in causes:
            return c
    return "other"


def check_string(s, tier, oracle_src=None):
    fam = _family(s)
    if fam == "bv" and re.search(r"(?<!/)/(?!/)", s):
        r = ItemResult(item=s, status="refused", note="true division with bitwise operators", nontrivial=False)
        return r
    sym.set_family(fam)
    res = ItemResult(item=s, sample={"string": s, "family": fam})
    truthy = False
    code = _oracle_code(oracle_src or s)
    trees = _trees(s)
    for tname, tree in trees:
        if isinstance(tree, Exception):
            if tname == "ast-import" and isinstance(tree, (NotImplementedError,)) or (
                    tname == "ast-import" and isinstance(tree, ValueError) and "unpack" in str(tree)):
                continue   # importer refuses constructs it does not support
            # Python accepts the string (items are filtered by ast.parse); refusing it is a violation
            res.status = "violation"
            res.violations.append(Violation(
                sig=f"{s} :: {tname} :: rejected:{type(tree).__name__}", kind=f"{tname}-rejects",
                detail=f"{tname}({s!r}) raised {tree!r} although Python accepts the string",
                replay={"string": s, "path": tname}))
            continue
        env, pre = _env(fam)

        def harness(tree=tree):
            o = H.outcome(lambda: eval(code, {"__bool": bool}, dict(env)))
            i = H.outcome(lambda: _evaluate(tree, env))
            return o, i

        ex = Explorer(pre=pre, max_paths=BOUNDS[tier]["max_paths"], timeout_ms=BOUNDS[tier]["solver_timeout_ms"])
        q = Query(timeout_ms=BOUNDS[tier]["solver_timeout_ms"])
        cmp_ = H.Cmp(q, fam, truthy=truthy)
        reached = 0
        try:
            for path in ex.run(harness):
                if path.exc is not None:
                    if isinstance(path.exc, sym.Unsupported):
                        res.note = f"outside proxy model: {path.exc}"
                        break
                    raise HarnessError(f"harness raised {path.exc!r} on {s!r}")
                o, i = path.result
                if o[0] == "exc":
                    continue         # Python's eval is undefined here: nothing required
                verdict, model, why = cmp_(path.pc, i, o)
                reached += 1
                res.path_assertions += 1
                if verdict in ("ok", "skip"):
                    continue
                if verdict == "unknown":
                    res.status = "inconclusive"
                    res.note = why
                    continue
                if model is None:
                    model = H.path_model([], path.pc)
                exact = fam != "bv" and bool(re.search(r"(?<!/)/(?!/)|\*\*", s))
                cenv = H.concretise_env(env, model, exact=exact)
                o2 = H.outcome(lambda: eval(code, {"__bool": bool}, dict(cenv)))
                i2 = H.outcome(lambda: _evaluate(tree, cenv))
                differs = o2[0] == "val" and (i2[0] == "exc" or not H.concrete_equal(i2[1], o2[1], truthy))
                if not differs and "pow(" in why:
                    # non-integer exponents are an uninterpreted function: its model value is not Python's
                    res.status = "inconclusive"
                    res.note = "counterexample depends on uninterpreted pow() with a non-integer exponent"
                    break
                if not differs:
                    raise HarnessError(f"counterexample did not reproduce: {s!r} via {tname} env {H.env_text(cenv)}: "
                                       f"{why}; python {H.show_outcome(o2)} pymbolic {H.show_outcome(i2)}")
                res.status = "violation"
                res.violations.append(Violation(
                    sig=f"{s} :: {tname} :: {'exception' if i2[0] == 'exc' else 'value'}",
                    kind=f"{tname}-differs:{classify(s, tname)}",
                    detail=f"{s!r} with {H.env_text(cenv)}: python eval {H.show_outcome(o2)}; {tname} tree {tree!r} "
                           f"evaluates to {H.show_outcome(i2)}",
                    replay={"string": s, "path": tname, "env": H.env_text(cenv), "tree": repr(tree)}))
                break
        except sym.Unsupported as e:
            res.note = f"outside proxy model: {e}"
        if not ex.complete and res.status == "ok":
            res.status = "inconclusive"
            res.note = "; ".join(ex.inconclusive_reasons[:2])
        H.finish(res, [ex.stats], q)
        if oracle_src:
            break
    if res.path_assertions == 0 and res.status == "ok":
        res.nontrivial = False
    return res


def check_garbage(g):
    """strings with trailing garbage / that Python rejects: parse must raise its parse error"""
    from pymbolic import parse
    from pytools.lex import InvalidTokenError, ParseError
    res = ItemResult(item=f"garbage {g!r}", sample={"string": g, "expect": "ParseError"})
    res.paths = 1
    res.path_assertions = 1
    if _ok_python(g):
        res.nontrivial = False
        return res
    try:
        t = parse(g)
    except (ParseError, InvalidTokenError):
        return res
    except Exception as e:  # noqa: BLE001
        t = e
    res.status = "violation"
    res.violations.append(Violation(sig=f"garbage {g!r}", kind="accepts-garbage",
                                    detail=f"parse({g!r}) -> {t!r}; Python rejects the string and the parser must "
                                           "consume the whole input or raise its parse error",
                                    replay={"string": g}))
    return res


def check_item(item, tier):
    if item[0] == "str":
        return check_string(item[1], tier)
    if item[0] == "garbage":
        return check_garbage(item[1])
    if item[0] == "twin":
        return check_string(item[1], tier, oracle_src=item[2])
    raise ValueError(item)
