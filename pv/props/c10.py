"""C10 — symbolic differentiation yields the true derivative.

The real differentiate() output is evaluated by the real evaluator at a *symbolic*
point over the reals; the elementary functions are uninterpreted functions
constrained by ground instances of their defining identities.  The oracle is a
forward-mode dual-number evaluation of the input tree written here.  z3 (NRA+UF)
decides derivative == dual.der for every point of the domain on every path."""
from __future__ import annotations

import z3

import pymbolic.primitives as p
from pv import harness as H
from pv.common import ItemResult, Violation
from pv.engine import explore, sym
from pv.engine.explore import Explorer, HarnessError, PathAbort, Query

BOUNDS = {"quick": {"trees": "differentiable fragment, depth <= 2 exhaustive over 21 kinds + depth 3 over 6 kinds + hand-picked",
                    "variables": "x, y, a non-occurring w, the subscript v[0]; each tree is differentiated w.r.t. all of them "
                                 "in one history", "nonsmoothness": "none / continuous / discontinuous",
                    "max_paths": 128, "solver_timeout_ms": 10000},
          "thorough": {"trees": "depth 3 over 10 kinds", "max_paths": 512, "solver_timeout_ms": 60000}}
ASSUMPTIONS = ["reals stand in for floats", "sin cos tan log exp sinh cosh tanh expm1 and pow (non-integer exponent) are "
               "uninterpreted functions constrained by ground instances of sin^2+cos^2=1, tan*cos=sin, cosh^2-sinh^2=1, "
               "tanh*cosh=sinh, expm1=exp-1, pow(b,e)=pow(b,e-1)*b for b>0 at the argument terms that occur",
               "points where the input is not differentiable (zero denominators, fabs/copysign kinks, non-positive bases of "
               "variable powers) are excluded"]
RULE = "one item per (tree, nonsmoothness setting); each differentiated w.r.t. 4 variables; non-trivial = >=1 derivative compared"

FUNCS1 = ["sin", "cos", "tan", "log", "exp", "sinh", "cosh", "tanh", "expm1"]


class Undefined(Exception):
    """point outside the domain of differentiability"""


# {{{ tree kinds for this property

def mathf(name):
    return p.Lookup(p.Variable("math"), name)


KINDS = {
    "sum2": (2, lambda a, b: p.Sum((a, b))), "sum3": (3, lambda a, b, c: p.Sum((a, b, c))),
    "prod2": (2, lambda a, b: p.Product((a, b))), "prod3": (3, lambda a, b, c: p.Product((a, b, c))),
    "quot": (2, p.Quotient), "pow": (2, p.Power),
    "pow2": (1, lambda a: p.Power(a, 2)), "pow3": (1, lambda a: p.Power(a, 3)), "powm1": (1, lambda a: p.Power(a, -1)),
    "powh": (1, lambda a: p.Power(a, 2.5)), "exp2": (1, lambda a: p.Power(2, a)),
    "cse": (1, lambda a: p.CommonSubexpression(a)),
    "fabs": (1, lambda a: p.Call(mathf("fabs"), (a,))),
    "copysign": (2, lambda a, b: p.Call(mathf("copysign"), (a, b))),
    "sign": (1, lambda a: p.Call(mathf("copysign"), (1, a))),
    "if": (3, lambda c, a, b: p.If(p.Comparison(c, "<", 0), a, b)),
    "unknownf": (1, lambda a: p.Call(p.Variable("g"), (a,))),
    # table functions called with a number of arguments the table has no rule for: unknown, to be refused
    "log_base": (2, lambda a, b: p.Call(mathf("log"), (a, b))),
    "sin_two": (2, lambda a, b: p.Call(mathf("sin"), (a, b))),
    "fabs_two": (2, lambda a, b: p.Call(mathf("fabs"), (a, b))),
    # the same OBJECT in several operand positions (trees are DAGs in practice: s = sin(x); s*s)
    "sq_shared": (1, lambda a: p.Product((a, a))), "prod3_shared": (2, lambda a, b: p.Product((a, b, a))),
    "sum_shared": (1, lambda a: p.Sum((a, a))), "quot_shared": (2, lambda a, b: p.Quotient(p.Sum((a, b)), a)),
    "pow_shared": (1, lambda a: p.Power(a, a)),
}
for _f in FUNCS1:
    KINDS[_f] = (1, (lambda f: lambda a: p.Call(mathf(f), (a,)))(_f))

SMOOTH = (["sum2", "sum3", "prod2", "prod3", "quot", "pow", "pow2", "pow3", "powm1", "powh", "exp2", "cse"] + FUNCS1
          + ["sq_shared", "prod3_shared", "sum_shared", "quot_shared", "pow_shared"])
NONSMOOTH = {"fabs": "continuous", "copysign": "discontinuous", "sign": "discontinuous", "if": "discontinuous",
             "unknownf": "never", "log_base": "never", "sin_two": "never", "fabs_two": "never"}
LEAVES = ["x", "y", "v0", 2, 3, -1, 0.5]


def leaf(l):
    if l == "v0":
        return p.Subscript(p.Variable("v"), 0)
    if isinstance(l, str):
        return p.Variable(l)
    return l


def build(d):
    if not isinstance(d, tuple):
        return leaf(d)
    return KINDS[d[0]][1](*[build(c) for c in d[1:]])


def show(d):
    if not isinstance(d, tuple):
        return str(d)
    return f"{d[0]}({', '.join(show(c) for c in d[1:])})"


def kinds_of(d, out=None):
    out = [] if out is None else out
    if isinstance(d, tuple):
        out.append(d[0])
        for c in d[1:]:
            kinds_of(c, out)
    return out


def depends(d, var):
    if not isinstance(d, tuple):
        return d == var
    return any(depends(c, var) for c in d[1:])


def mk(kind, args):
    return (kind, *args)


def default_args(n, first=0):
    pool = ["x", "y", "x", "v0"]
    return [pool[(first + i) % len(pool)] for i in range(n)]


def gen_trees(tier):
    out = []
    kinds = SMOOTH + list(NONSMOOTH)
    # depth 1: every kind with leaf arguments (variable, and constant in each slot)
    for k in kinds:
        n = KINDS[k][0]
        out.append(mk(k, default_args(n)))
        for i in range(n):
            for c in [2, -1, 0.5]:
                a = default_args(n)
                a[i] = c
                out.append(mk(k, a))
    # depth 2: every (parent, slot, child)
    for pk in kinds:
        n = KINDS[pk][0]
        for i in range(n):
            for ck in kinds:
                if pk == "if" and i == 0 and ck in ("log_base", "sin_two", "fabs_two"):
                    continue      # as a mere condition value such a call is not differentiated at all
                a = default_args(n, 1)
                a[i] = mk(ck, default_args(KINDS[ck][0]))
                out.append(mk(pk, a))
    d3 = ["sum2", "prod2", "quot", "pow", "sin", "cse"] + (["exp", "log", "pow2", "prod3"] if tier == "thorough" else [])
    for k1 in d3:
        for i1 in range(KINDS[k1][0]):
            for k2 in d3:
                for i2 in range(KINDS[k2][0]):
                    for k3 in d3:
                        inner = mk(k3, default_args(KINDS[k3][0]))
                        a2 = default_args(KINDS[k2][0], 1)
                        a2[i2] = inner
                        a1 = default_args(KINDS[k1][0], 2)
                        a1[i1] = mk(k2, a2)
                        out.append(mk(k1, a1))
    out += [
        ("prod2", ("cse", ("prod2", ("pow2", "x"), "y")), ("cse", ("prod2", ("pow2", "x"), "y"))),
        ("sum2", ("pow2", ("cse", ("prod2", ("pow2", "x"), "y"))), "y"),
        ("quot", ("prod2", "x", ("pow3", ("sum2", "x", 5))), ("pow2", ("sum2", "x", -1))),
        ("pow", "x", "x"), ("pow", ("sum2", "x", "y"), ("prod2", "x", "y")), ("quot", 1, "x"), ("quot", "x", 2),
        ("prod2", "x", ("sign", "x")), ("fabs", ("fabs", "x")), ("copysign", "x", "y"), ("copysign", "y", "x"),
        ("copysign", ("prod2", "x", "y"), ("sum2", "x", -1)),
        ("if", "x", ("pow2", "x"), ("prod2", 3, "x")), ("if", "y", "x", ("prod2", "x", "y")),
        ("prod3", "x", "x", "x"), ("sum3", "x", ("prod2", 2, "x"), ("pow2", "x")),
        # different wrapped subexpressions whose hashes collide in CPython (hash(-1) == hash(-2))
        ("sum2", ("cse", ("pow2", ("sum2", "x", -1))), ("cse", ("pow2", ("sum2", "x", -2)))),
        ("sum2", ("cse", ("pow", "x", -1)), ("cse", ("pow", "x", -2))),
        ("prod2", ("cse", ("prod2", -1, ("pow2", "x"))), ("cse", ("prod2", -2, ("pow2", "x")))),
    ]
    seen, res = set(), []
    for d in out:
        s = show(d)
        if s not in seen:
            seen.add(s)
            res.append(d)
    return res


def items(tier):
    out = []
    for d in gen_trees(tier):
        ks = kinds_of(d)
        ns = [k for k in ks if k in NONSMOOTH]
        settings = ["none"] if not ns else ["none", "continuous", "discontinuous"]
        for s in settings:
            out.append(("tree", d, s))
    return out


def twins(tier):
    return [("twin", ("quot", "x", "y"), "none")]

# }}}


# {{{ uninterpreted elementary functions + dual numbers

class MathEnv:
    """the `math` object of the environment: each function is a UF over the reals; identities are collected"""

    def __init__(self):
        self.axioms = []
        self.fs = {}

    def f(self, name):
        if name not in self.fs:
            self.fs[name] = z3.Function(name, z3.RealSort(), z3.RealSort())
        return self.fs[name]

    def app(self, name, t):
        r = self.f(name)(t)
        if name in ("sin", "cos", "tan"):
            s, c, tn = self.f("sin")(t), self.f("cos")(t), self.f("tan")(t)
            self.axioms += [s * s + c * c == 1, tn * c == s]
        if name in ("sinh", "cosh", "tanh"):
            s, c, tn = self.f("sinh")(t), self.f("cosh")(t), self.f("tanh")(t)
            self.axioms += [c * c - s * s == 1, tn * c == s, c >= 1]
        if name in ("exp", "expm1"):
            self.axioms += [self.f("expm1")(t) == self.f("exp")(t) - 1, self.f("exp")(t) > 0]
        return r

    def _unary(self, name):
        if name == "fabs":
            return lambda a: abs(_frac(a))

        def fn(a):
            a = _frac(a)
            if name == "log":
                if not (a > 0):
                    raise ValueError("math domain error")
            return sym.SymFrac(self.app(name, a.term))
        return fn

    def __getattr__(self, name):
        if name.startswith("_"):
            raise AttributeError(name)
        if name in ("fabs", "sin", "log"):
            one = self._unary(name)

            def any_arity(*a):
                if len(a) == 1:
                    return one(a[0])
                # a call form math has no such function for: only ever a value inside a condition, any number will do
                f2 = z3.Function(f"{name}{len(a)}", *([z3.RealSort()] * (len(a) + 1)))
                return sym.SymFrac(f2(*[_frac(x).term for x in a]))
            return any_arity
        if name == "copysign":
            def cs(a, b):
                a, b = _frac(a), _frac(b)
                return sym.SymFrac(z3.If(b.term >= 0, z3.If(a.term >= 0, a.term, -a.term),
                                         z3.If(a.term >= 0, -a.term, a.term)))
            return cs
        if name in FUNCS1:
            def fn(a):
                a = _frac(a)
                if name == "log":
                    if not (a > 0):
                        raise ValueError("math domain error")
                return sym.SymFrac(self.app(name, a.term))
            return fn
        raise AttributeError(name)


def _frac(a):
    if isinstance(a, sym.SymFrac):
        return a
    if isinstance(a, sym.SymInt):
        return sym.SymFrac(z3.ToReal(a.term))
    return sym.SymFrac(sym._realval(a))


class Dual:
    def __init__(self, val, der):
        self.val, self.der = val, der


def dual(d, env, menv, var):
    """forward-mode derivative of tree-description d w.r.t. leaf name var; returns Dual"""
    def D(x):
        return dual(x, env, menv, var)
    if not isinstance(d, tuple):
        if isinstance(d, str):
            v = env["v"][0] if d == "v0" else env[d]
            return Dual(v, 1 if d == var else 0)
        return Dual(d, 0)
    k, args = d[0], d[1:]
    # the shared-object kinds mean what their unshared spelling means
    if k == "sq_shared":
        return D(("prod2", args[0], args[0]))
    if k == "prod3_shared":
        return D(("prod3", args[0], args[1], args[0]))
    if k == "sum_shared":
        return D(("sum2", args[0], args[0]))
    if k == "quot_shared":
        return D(("quot", ("sum2", args[0], args[1]), args[0]))
    if k == "pow_shared":
        return D(("pow", args[0], args[0]))
    if k in ("sum2", "sum3"):
        ds = [D(a) for a in args]
        return Dual(sum(x.val for x in ds), sum(x.der for x in ds))
    if k in ("prod2", "prod3"):
        ds = [D(a) for a in args]
        val, der = 1, 0
        for i, x in enumerate(ds):
            val = val * x.val
            term = x.der
            for j, y in enumerate(ds):
                if j != i:
                    term = term * y.val
            der = der + term
        return Dual(val, der)
    if k == "quot":
        f, g = D(args[0]), D(args[1])
        if _frac(g.val) == 0:
            raise Undefined("zero denominator")
        return Dual(f.val / g.val, (f.der * g.val - f.val * g.der) / (g.val * g.val))
    if k in ("pow2", "pow3", "powm1"):
        n = {"pow2": 2, "pow3": 3, "powm1": -1}[k]
        f = D(args[0])
        if n < 0 and _frac(f.val) == 0:
            raise Undefined("0**-1")
        return Dual(f.val ** n, n * f.val ** (n - 1) * f.der)
    if k in ("pow", "powh", "exp2"):
        if k == "powh":
            f, g = D(args[0]), Dual(2.5, 0)
        elif k == "exp2":
            f, g = Dual(2, 0), D(args[0])
        else:
            f, g = D(args[0]), D(args[1])
            if isinstance(g.val, int) and not isinstance(g.val, bool):
                n = g.val       # constant integer exponent: polynomial rule, no domain restriction beyond 0**negative
                if n <= 0 and _frac(f.val) == 0:
                    raise Undefined("0**non-positive")
                return Dual(f.val ** n, n * f.val ** (n - 1) * f.der)
        fv, gv = _frac(f.val), _frac(g.val)
        if not (fv > 0):
            raise Undefined("non-positive base of a general power")
        pw = sym._pow_uf(fv.term, gv.term)
        lg = sym.SymFrac(menv.app("log", fv.term))
        return Dual(pw, pw * (g.der * lg + gv * f.der / fv))
    if k == "cse":
        return D(args[0])
    if k in FUNCS1:
        u = D(args[0])
        uv = _frac(u.val)
        t = uv.term
        A = lambda n: sym.SymFrac(menv.app(n, t))  # noqa: E731
        if k == "log":
            if not (uv > 0):
                raise Undefined("log of non-positive")
            return Dual(A("log"), u.der / uv)
        table = {"sin": lambda: A("cos"), "cos": lambda: -A("sin"), "tan": lambda: 1 + A("tan") * A("tan"),
                 "exp": lambda: A("exp"), "sinh": lambda: A("cosh"), "cosh": lambda: A("sinh"),
                 "tanh": lambda: 1 - A("tanh") * A("tanh"), "expm1": lambda: A("exp")}
        return Dual(A(k), table[k]() * u.der)
    if k == "fabs":
        u = D(args[0])
        uv = _frac(u.val)
        if uv == 0:
            raise Undefined("kink of fabs")
        sgn = sym.SymFrac(z3.If(uv.term > 0, z3.RealVal(1), z3.RealVal(-1)))
        return Dual(abs(uv), sgn * u.der)
    if k in ("copysign", "sign"):
        a, b = (Dual(1, 0), D(args[0])) if k == "sign" else (D(args[0]), D(args[1]))
        av, bv = _frac(a.val), _frac(b.val)
        if bv == 0 or (av == 0 and k != "sign"):
            raise Undefined("kink of copysign")
        sa = sym.SymFrac(z3.If(av.term > 0, z3.RealVal(1), z3.RealVal(-1)))
        sb = sym.SymFrac(z3.If(bv.term > 0, z3.RealVal(1), z3.RealVal(-1)))
        return Dual(abs(av) * sb, sa * sb * a.der)
    if k == "if":
        c = D(args[0])
        cv = _frac(c.val)
        if cv == 0:
            raise Undefined("switching point of the conditional")
        return D(args[1]) if cv < 0 else D(args[2])
    if k in ("log_base", "sin_two", "fabs_two"):
        u = D(args[0])
        return Dual(env["g"](_frac(u.val)), 0)      # never differentiated (refused); only a value inside conditions
    if k == "unknownf":
        u = D(args[0])
        # only the value is ever needed (inside the condition of a conditional): no derivative rule exists
        return Dual(env["g"](_frac(u.val)), 0)
    raise HarnessError(f"dual: no rule for {k}")

# }}}


VARS = ["x", "y", "w", "v0", "x"]     # history: x, y, non-occurring w, subscript v[0], x again


def _diff_var(name):
    if name == "v0":
        return p.Subscript(p.Variable("v"), 0)
    return p.Variable(name)


def check_item(item, tier):
    from pymbolic.mapper.differentiator import differentiate
    from pymbolic.mapper.evaluator import EvaluationMapper
    twin = item[0] == "twin"
    _, d, setting = item
    sym.set_family("real")
    text = f"{show(d)} nonsmooth={setting}"
    res = ItemResult(item=text, sample={"tree": show(d), "allowed_nonsmoothness": setting})
    expr = build(d)
    ks = kinds_of(d)
    q = Query(timeout_ms=BOUNDS[tier]["solver_timeout_ms"])
    stats = []
    order = {"none": 0, "continuous": 1, "discontinuous": 2, "never": 3}

    def viol(var, kind, detail, replay=None):
        res.status = "violation"
        res.violations.append(Violation(sig=f"{text} d/d{var} :: {kind}", kind=f"diff-{kind}",
                                        detail=f"differentiate({expr}, {var}, allowed_nonsmoothness={setting!r}): {detail}",
                                        replay=replay or {"expr": str(expr), "var": var, "setting": setting}))

    for step, var in enumerate(VARS):
        if res.status == "violation":
            break
        # which non-smooth kinds does the derivative actually have to go through?
        needed = max([order[NONSMOOTH[k]] for k in ks if k in NONSMOOTH] or [0])
        must_refuse = _needs(d, var) > order[setting]
        try:
            dexpr = differentiate(expr, _diff_var(var), allowed_nonsmoothness=setting)
            refused = None
        except (ValueError, RuntimeError) as e:
            refused = e
        except Exception as e:  # noqa: BLE001
            viol(var, "raises", f"raised {e!r}")
            continue
        res.path_assertions += 1
        if refused is not None:
            if needed <= order[setting] and not twin:
                viol(var, "refuses-smooth", f"refused ({refused!r}) although every function in the tree is allowed")
            continue
        if must_refuse:
            viol(var, "not-refused", f"returned {dexpr} although the derivative passes through a function that is not "
                                     f"allowed under {setting!r}")
            continue
        # value clause
        xs = {n: sym.var(n, "real")[0] for n in ("x", "y", "w")}
        v0 = sym.var("v0", "real")[0]
        menv = MathEnv()
        guf = sym.UF("g", "real")
        env = {**xs, "v": {0: v0}, "math": menv, "g": guf,
               "log": lambda a: menv.log(a)}

        def harness():
            menv.axioms.clear()
            try:
                o = dual(d, env, menv, var if not twin else "y")
            except Undefined:
                raise PathAbort("outside the domain") from None
            i = H.outcome(lambda: EvaluationMapper(env)(dexpr))
            return o, i, list(menv.axioms), list(_pow_axioms())

        _POW_LOG.clear()
        ex = Explorer(pre=[], max_paths=BOUNDS[tier]["max_paths"], timeout_ms=BOUNDS[tier]["solver_timeout_ms"])
        for path in ex.run(harness):
            if path.exc is not None:
                if isinstance(path.exc, (sym.Unsupported,)):
                    res.note = f"outside proxy model: {path.exc}"
                    break
                raise HarnessError(f"harness raised {path.exc!r} on {text} d/d{var}")
            o, i, axioms, powax = path.result
            res.path_assertions += 1
            if i[0] == "exc":
                if isinstance(i[1], (ZeroDivisionError, ValueError)):
                    # derivative undefined where the function is (e.g. 1/g**2 at g == 0, log of non-positive):
                    # these points are outside the domain only if the oracle excluded them; otherwise report
                    viol(var, "derivative-raises", f"derivative {dexpr} raises {i[1]!r} at a point where the input is "
                                                   f"differentiable (path {path.pc[:3]})")
                    break
                raise HarnessError(f"evaluating the derivative raised {i[1]!r} on {text}")
            goal = sym.eq_term(i[1], o.der, "real")
            verdict, model = q.valid(path.pc, goal, extra=axioms + powax)
            if verdict == "unsat":
                continue
            if verdict == "unknown":
                res.status = "inconclusive"
                res.note = f"d/d{var}: solver unknown"
                continue
            # sat: replay numerically with floats and the real math module at the model's point
            ok, detail = _replay(d, expr, dexpr, var, model, xs, v0, twin)
            if ok is None:
                res.status = "inconclusive"
                res.note = f"d/d{var}: counterexample uses uninterpreted values that math does not reproduce: {detail}"
                continue
            if not ok:
                raise HarnessError(f"counterexample did not reproduce: {text} d/d{var}: {detail}")
            viol(var, "value", f"derivative {dexpr}: {detail}",
                 {"expr": str(expr), "var": var, "setting": setting, "detail": detail})
            break
        stats.append(ex.stats)
        if not ex.complete and res.status == "ok":
            res.status = "inconclusive"
            res.note = "; ".join(ex.inconclusive_reasons[:2])
    return H.finish(res, stats, q)


def _needs(d, var):
    """highest non-smoothness level the derivative w.r.t. var must pass through (0 none .. 3 unknown function)"""
    order = {"none": 0, "continuous": 1, "discontinuous": 2, "never": 3}
    if not isinstance(d, tuple):
        return 0
    lvl = 0
    if d[0] in NONSMOOTH and depends(d, var):
        # `if`: only the branches are differentiated, but the node itself needs 'discontinuous'
        lvl = order[NONSMOOTH[d[0]]]
    kids = d[2:] if d[0] == "if" else d[1:]      # the condition of a conditional is not differentiated
    return max([lvl] + [_needs(c, var) for c in kids])


_POW_LOG: list = []
_orig_pow_uf = sym._pow_uf


def _logging_pow_uf(b, e):
    _POW_LOG.append((b, e))
    return _orig_pow_uf(b, e)


sym._pow_uf = _logging_pow_uf


def _pow_axioms():
    f = sym.POW_UF.get("pow")
    out = []
    if f is None:
        return out
    seen = set()
    for b, e in list(_POW_LOG):
        key = (b.sexpr(), e.sexpr())
        if key in seen:
            continue
        seen.add(key)
        out.append(z3.Implies(b > 0, z3.And(f(b, e) == f(b, e - 1) * b, f(b, e + 1) == f(b, e) * b, f(b, e) > 0)))
    return out


def _replay(d, expr, dexpr, var, model, xs, v0, twin):
    """numeric replay at the model's point with Python floats and the real math module: compare the library's
    derivative with a central finite difference of the library-independent value function"""
    import math
    from pymbolic.mapper.evaluator import EvaluationMapper
    pt = {n: float(sym.model_value(model, v)) for n, v in xs.items()}
    pt_v0 = float(sym.model_value(model, v0))

    def env_at(delta):
        e = dict(pt)
        vv = pt_v0
        if var == "v0":
            vv += delta
        elif var in e:
            e[var] += delta
        return {**e, "v": {0: vv}, "math": math, "log": math.log, "g": lambda a: a}
    try:
        got = float(EvaluationMapper(env_at(0.0))(dexpr))
        h = 1e-6
        fd = (float(EvaluationMapper(env_at(h))(expr)) - float(EvaluationMapper(env_at(-h))(expr))) / (2 * h)
    except Exception as e:  # noqa: BLE001
        return None, f"numeric replay not possible at {pt}, v0={pt_v0}: {e!r}"
    if twin:
        return True, f"twin: at {pt} derivative {got} (oracle deliberately differentiates w.r.t. y)"
    if abs(got - fd) > 1e-4 * max(1.0, abs(fd), abs(got)):
        return True, f"at {pt}, v[0]={pt_v0}: derivative evaluates to {got}, finite difference of the input gives {fd}"
    return None, f"at {pt}: derivative {got} ~ finite difference {fd}"
