"""C15 — linear-form extraction and affine solving are exact.

CoefficientCollector does not hash coefficients, so every numeric coefficient of
the input expression is a symbolic integer; z3 proves sum(coeff*var) + const == e
for every environment *and every coefficient value*.  gaussian_elimination runs on
matrices whose entries and right-hand sides are symbolic integers in a small box
(symbolic divisors are realised); z3 proves that the solution set over real
unknowns is unchanged.  solve_affine_equations_for is checked on concrete small
systems with symbolic parameters: z3 proves that the returned assignments satisfy
every equation for all parameter values, and decides uniqueness."""
from __future__ import annotations

import itertools
from fractions import Fraction

import numpy as np
import z3

import pymbolic.primitives as p
from pv import harness as H
from pv.common import ItemResult, Violation
from pv.engine import sym
from pv.engine.explore import Explorer, HarnessError, Query

BOUNDS = {"quick": {"collector": "28 affine / 12 non-affine skeletons x 4 target sets, coefficients unbounded symbolic ints",
                    "gauss": "2x2 and 2x3 systems, entries and rhs in [-1, 1], divisors realised", "solver": "systems with 2-3 "
                    "unknowns, 0-2 parameters, coefficients in [-2, 2]", "max_paths": 1500},
          "thorough": {"gauss": "2x2 in [-2, 2], 3x3 in [-1, 1] (lower-triangular sub-family)", "max_paths": 20000}}
ASSUMPTIONS = ["exact arithmetic; coefficient expressions are evaluated by the evaluator (C02)",
               "gaussian_elimination: entries bounded by the stated box (Euclid's loop is run out by forking)"]
RULE = "one item per (skeleton, target set) / matrix shape / equation system"

V = p.Variable


# {{{ coefficient collector

def cc_skeletons():
    """(name, builder(c) -> expr, affine_in(targets) -> bool)  c = list of coefficient values"""
    x, y, z, a, i = V("x"), V("y"), V("z"), V("a"), V("i")
    S, P, Q = (lambda *c: p.Sum(tuple(c))), (lambda *c: p.Product(tuple(c))), p.Quotient
    return [
        ("c0*x + c1*y + c2", lambda c: S(P(c[0], x), P(c[1], y), c[2]), None),
        ("x*c0 + c1", lambda c: S(P(x, c[0]), c[1]), None),
        ("c0*(x + c1*y)", lambda c: P(c[0], S(x, P(c[1], y))), None),
        ("(c0*x + c1)/c2", lambda c: Q(S(P(c[0], x), c[1]), c[2]), None),
        ("c0*(c1*x)", lambda c: P(c[0], P(c[1], x)), None),
        ("x*c0*c1", lambda c: P(x, c[0], c[1]), None),
        ("c0*x*c1", lambda c: P(c[0], x, c[1]), None),
        ("(-1)*x + c0", lambda c: S(P(-1, x), c[0]), None),
        ("x + x + c0*x", lambda c: S(x, x, P(c[0], x)), None),
        ("c0", lambda c: c[0], None),
        ("x", lambda c: x, None),
        ("c0*x + c1*x + y", lambda c: S(P(c[0], x), P(c[1], x), y), None),
        ("(x + y)*c0 + (x + c1)*c2", lambda c: S(P(S(x, y), c[0]), P(S(x, c[1]), c[2])), None),
        ("x/c0 + y/c1", lambda c: S(Q(x, c[0]), Q(y, c[1])), None),
        ("(x/c0)/c1", lambda c: Q(Q(x, c[0]), c[1]), None),
        ("c0*(x/c1) + c2", lambda c: S(P(c[0], Q(x, c[1])), c[2]), None),
        ("x/c0 + x", lambda c: S(Q(x, c[0]), x), None),
        ("c0**2 * x", lambda c: P(p.Power(c[0], 2), x), None),
        ("z*x + c0", lambda c: S(P(z, x), c[0]), lambda t: t is None and False or (t is not None and not {"x", "z"} <= t)),
        ("z*(x + c0*y)", lambda c: P(z, S(x, P(c[0], y))), lambda t: t is not None and "z" not in t or (t is not None and not ({"x", "y"} & t))),
        ("x/z", lambda c: Q(x, z), lambda t: t is not None and "z" not in t),
        ("a[i]*c0 + x", lambda c: S(P(p.Subscript(a, i), c[0]), x), "leafy"),
        ("a[i] + a[i]*c0", lambda c: S(p.Subscript(a, i), P(p.Subscript(a, i), c[0])), "leafy"),
        ("f(x)*c0 + y", lambda c: S(P(p.Call(V("f"), (x,)), c[0]), y), lambda t: t is None or "x" not in t),
        ("a[x]*c0 + y", lambda c: S(P(p.Subscript(a, x), c[0]), y), lambda t: t is None or "x" not in t),
        # non-affine in {x, y}
        ("x*y", lambda c: P(x, y), lambda t: t is not None and not {"x", "y"} <= t),
        ("x*x", lambda c: P(x, x), lambda t: t is not None and "x" not in t),
        ("x**2", lambda c: p.Power(x, 2), lambda t: t is not None and "x" not in t),
        ("c0**x", lambda c: p.Power(c[0], x), lambda t: t is not None and "x" not in t),
        ("c0/x", lambda c: Q(c[0], x), lambda t: t is not None and "x" not in t),
        ("(x + c0)*(y + c1)", lambda c: P(S(x, c[0]), S(y, c[1])), lambda t: t is not None and not ({"x"} <= t and {"y"} <= t)),
        ("x*(c0*x + 1)", lambda c: P(x, S(P(c[0], x), 1)), lambda t: t is not None and "x" not in t),
        ("x/(y + c0)", lambda c: Q(x, S(y, c[0])), lambda t: t is not None and "y" not in t),
        # powers whose base/exponent MIX a target with a non-target term (round f: the collector's map_power must refuse
        # a base or exponent dict that has a target entry next to the constant entry)
        ("(x + c0)**2", lambda c: p.Power(S(x, c[0]), 2), lambda t: t is not None and "x" not in t),
        ("c0**(x + c1)", lambda c: p.Power(c[0], S(x, c[1])), lambda t: t is not None and "x" not in t),
        ("c0*(x + z)**2 + x", lambda c: S(P(c[0], p.Power(S(x, z), 2)), x),
         lambda t: t is not None and "x" not in t and "z" not in t),
        ("(c0*y + z)**(x + 1) + y", lambda c: S(p.Power(S(P(c[0], y), z), S(x, 1)), y),
         lambda t: t is not None and not ({"x", "y", "z"} & t)),
        ("(z + c0)**3 * c1 + x", lambda c: S(P(p.Power(S(z, c[0]), 3), c[1]), x),
         lambda t: t is not None and "z" not in t),
    ]


TARGET_SETS = [None, frozenset({"x"}), frozenset({"x", "y"}), frozenset({"y", "z"}), frozenset()]


def check_cc(idx, tset_i, tier, twin=False):
    from pymbolic.mapper.coefficient import CoefficientCollector
    from pymbolic.mapper.dependency import DependencyMapper
    from pymbolic.mapper.evaluator import EvaluationMapper
    sym.set_family("real")
    name, build, aff = cc_skeletons()[idx]
    targets = TARGET_SETS[tset_i]
    tshow = None if targets is None else sorted(targets)
    text = f"collector `{name}` targets={tshow}"
    res = ItemResult(item=text, sample={"expression": name, "targets": tshow})
    cs = [sym.SymInt(z3.Int(f"c{i}")) for i in range(3)]
    env = {n: sym.var(n, "real")[0] for n in ("x", "y", "z", "i")}
    env["a"] = sym.UFArray("a", "real")
    env["f"] = sym.UF("f", "real")
    if aff is None or aff == "leafy":
        affine = True
    else:
        affine = bool(aff(targets))

    def viol(kind, detail):
        res.status = "violation"
        res.violations.append(Violation(sig=f"{text} :: {kind}", kind=f"coeff-{kind}", detail=detail,
                                        replay={"expression": name, "targets": sorted(targets) if targets else None}))

    def harness():
        e = build(cs)
        try:
            coeffs = CoefficientCollector(targets)(e) if isinstance(e, p.Expression) else {1: e}
        except RuntimeError as ex_:
            return e, ("refused", ex_), None, None
        except (HarnessError, sym.Unsupported):
            raise
        except Exception as ex_:  # noqa: BLE001
            return e, ("exc", ex_), None, None
        o = H.outcome(lambda: EvaluationMapper(env)(e) if isinstance(e, p.Expression) else e)

        def recombine():
            acc = 0
            for k, cf in coeffs.items():
                cv = EvaluationMapper(env)(cf) if isinstance(cf, p.Expression) else cf
                kv = 1 if (not isinstance(k, p.Expression) and k == 1) else EvaluationMapper(env)(k)
                acc = acc + cv * kv
            return acc + (1 if twin else 0)
        i = H.outcome(recombine)
        return e, ("val", coeffs), o, i

    ex = Explorer(pre=[], max_paths=64, timeout_ms=10000)
    q = Query()
    cmp_ = H.Cmp(q, "real")
    for path in ex.run(harness):
        if path.exc is not None:
            raise HarnessError(f"{text}: {path.exc!r}")
        e, r, o, i = path.result
        res.path_assertions += 1
        if r[0] == "refused":
            if affine and not twin:
                viol("refuses-affine", f"CoefficientCollector({targets})({e}) raised {r[1]!r} on an affine input")
            break
        if r[0] == "exc":
            viol("raises", f"CoefficientCollector({targets})({e}) raised {r[1]!r}")
            break
        coeffs = r[1]
        if not affine:
            viol("accepts-non-affine", f"CoefficientCollector({targets})({e}) returned {coeffs} for an input that is not "
                                       "affine in the targets")
            break
        # coefficients free of the targets; keys are targets or 1
        tnames = targets if targets is not None else {"x", "y", "z", "a", "i", "f"}
        for k, cf in coeffs.items():
            deps = {v.name for v in DependencyMapper(composite_leaves=False)(cf)} if isinstance(cf, p.Expression) else set()
            if targets is not None and deps & set(targets):
                viol("coefficient-mentions-target", f"coefficient of {k} is {cf}, which mentions a target")
        if o[0] == "exc":
            continue
        verdict, model, why = cmp_(path.pc, i, o)
        if verdict in ("ok", "skip"):
            continue
        if verdict == "unknown":
            res.status = "inconclusive"
            continue
        if model is None:
            model = H.path_model([], path.pc)
        cvals = [sym.model_value(model, c) for c in cs]
        cenv = H.concretise_env(env, model, exact=True)
        e2 = build(cvals)
        try:
            co2 = CoefficientCollector(targets)(e2) if isinstance(e2, p.Expression) else {1: e2}
            tot = sum((EvaluationMapper(cenv)(cf) if isinstance(cf, p.Expression) else Fraction(cf))
                      * (1 if (not isinstance(k, p.Expression) and k == 1) else EvaluationMapper(cenv)(k))
                      for k, cf in co2.items()) + (1 if twin else 0)
            orig = EvaluationMapper(cenv)(e2) if isinstance(e2, p.Expression) else e2
        except Exception as ex2:  # noqa: BLE001
            raise HarnessError(f"replay failed {text}: {ex2!r}") from None
        if tot == orig:
            raise HarnessError(f"counterexample did not reproduce: {text} c={cvals} env {H.env_text(cenv)}: {why}")
        viol("value", f"CoefficientCollector({targets})({e2}) = {co2}; with {H.env_text(cenv)} the linear form gives {tot}, "
                      f"the expression {orig}")
        break
    return H.finish(res, [ex.stats], q)

# }}}


# {{{ gaussian elimination

def check_gauss(m, n, k, box, tier, twin=False):
    from pymbolic.algorithm import gaussian_elimination
    sym.set_family("int")
    text = f"gaussian_elimination {m}x{n} rhs {m}x{k} box=[-{box},{box}]"
    res = ItemResult(item=text, sample={"shape": [m, n, k], "box": box})
    A = [[z3.Int(f"a{i}{j}") for j in range(n)] for i in range(m)]
    B = [[z3.Int(f"b{i}{j}") for j in range(k)] for i in range(m)]
    pre = [z3.And(t >= -box, t <= box) for row in A + B for t in row]
    xs = [z3.Real(f"x{j}") for j in range(n)]
    ps = [z3.Real(f"p{j}") for j in range(k)]       # rhs columns are parameter columns (last one: constants)

    def system(mat, rhs):
        eqs = []
        for i in range(m):
            lhs = z3.Sum([z3.ToReal(sym.to_term(mat[i][j], "int")) * xs[j] for j in range(n)]) if n else z3.RealVal(0)
            r = z3.Sum([z3.ToReal(sym.to_term(rhs[i][j], "int")) * ps[j] for j in range(k)])
            eqs.append(lhs == r)
        return z3.And(*eqs)

    def harness():
        mat = np.empty((m, n), dtype=object)
        rhs = np.empty((m, k), dtype=object)
        for i in range(m):
            for j in range(n):
                mat[i, j] = sym.SymInt(A[i][j])
            for j in range(k):
                rhs[i, j] = sym.SymInt(B[i][j])
        m2, r2 = gaussian_elimination(mat, rhs)
        return [[m2[i, j] for j in range(n)] for i in range(m)], [[r2[i, j] for j in range(k)] for i in range(m)]

    old = sym.REALISE_DIVISORS[0]
    sym.REALISE_DIVISORS[0] = True
    ex = Explorer(pre=pre, max_paths=BOUNDS[tier]["max_paths"], timeout_ms=20000)
    q = Query(timeout_ms=20000)
    before = system([[sym.SymInt(t) for t in row] for row in A], [[sym.SymInt(t) for t in row] for row in B])
    try:
        for path in ex.run(harness):
            res.path_assertions += 1
            if path.exc is not None:
                model = H.path_model([], path.pc)
                vals = [[model.eval(t, model_completion=True).as_long() for t in row] for row in A], \
                       [[model.eval(t, model_completion=True).as_long() for t in row] for row in B]
                ok, detail = _replay_gauss(vals, m, n, k, expect_exc=True)
                if not ok:
                    raise HarnessError(f"{text}: harness raised {path.exc!r}, not reproducible: {detail}")
                _gv(res, text, "raises", f"gaussian_elimination raised {path.exc!r} for mat={vals[0]} rhs={vals[1]}")
                break
            m2, r2 = path.result
            after = system(m2, r2)
            if twin:
                after = z3.And(after, xs[0] == 0)
            for direction, hyp, goal in (("loses-solutions", before, after), ("gains-solutions", after, before)):
                verdict, model = q.valid(path.pc + [hyp], goal)
                if verdict == "unsat":
                    continue
                if verdict == "unknown":
                    res.status = "inconclusive"
                    res.note = "solver unknown"
                    continue
                vals = [[model.eval(t, model_completion=True).as_long() for t in row] for row in A], \
                       [[model.eval(t, model_completion=True).as_long() for t in row] for row in B]
                ok, detail = _replay_gauss(vals, m, n, k, twin=twin)
                if not ok:
                    raise HarnessError(f"{text}: counterexample did not reproduce for mat={vals[0]} rhs={vals[1]}: {detail}")
                _gv(res, text, direction, f"mat={vals[0]} rhs={vals[1]}: {detail}")
                return H.finish(res, [ex.stats], q)
    finally:
        sym.REALISE_DIVISORS[0] = old
    if not ex.complete and res.status == "ok":
        res.status = "inconclusive"
        res.note = "; ".join(ex.inconclusive_reasons[:2])
    return H.finish(res, [ex.stats], q)


def _gv(res, text, kind, detail):
    res.status = "violation"
    res.violations.append(Violation(sig=f"{text} :: {kind}", kind=f"gauss-{kind}", detail=detail, replay={"detail": detail}))


def _rref(rows):
    """reduced row echelon form over the rationals (independent oracle for replay)"""
    rows = [[Fraction(v) for v in r] for r in rows]
    piv = 0
    ncols = len(rows[0]) if rows else 0
    for c in range(ncols):
        pr = next((r for r in range(piv, len(rows)) if rows[r][c] != 0), None)
        if pr is None:
            continue
        rows[piv], rows[pr] = rows[pr], rows[piv]
        rows[piv] = [v / rows[piv][c] for v in rows[piv]]
        for r in range(len(rows)):
            if r != piv and rows[r][c] != 0:
                f = rows[r][c]
                rows[r] = [a - f * b for a, b in zip(rows[r], rows[piv])]
        piv += 1
    return sorted([r for r in rows if any(r)])


def _replay_gauss(vals, m, n, k, expect_exc=False, twin=False):
    from pymbolic.algorithm import gaussian_elimination
    mat = np.array(vals[0], dtype=object).reshape(m, n)
    rhs = np.array(vals[1], dtype=object).reshape(m, k)
    before = _rref([list(mat[i]) + list(rhs[i]) for i in range(m)])
    try:
        m2, r2 = gaussian_elimination(mat.copy(), rhs.copy())
    except Exception as e:  # noqa: BLE001
        return expect_exc, f"raised {e!r}"
    if expect_exc:
        return False, "did not raise"
    after = _rref([list(m2[i]) + list(r2[i]) for i in range(m)])
    if twin:
        return True, "twin"
    if before != after:
        return True, f"result mat={m2.tolist()} rhs={r2.tolist()} spans a different solution set (row spaces {before} vs {after})"
    return False, "same row space"

# }}}


# {{{ affine equation solver

def systems():
    x, y, z, n, m = V("x"), V("y"), V("z"), V("n"), V("m")
    S, P = (lambda *c: p.Sum(tuple(c))), (lambda *c: p.Product(tuple(c)))
    out = []
    # square 2x2 over (x, y), rhs in parameters n, m and constants
    coefs = [-2, -1, 1, 2]
    for a, b, c, d in itertools.product([1, -1, 2], [0, 1, -1], [0, 1, 2], [1, -1]):
        eqs = [(S(P(a, x), P(b, y)), S(n, 1)), (S(P(c, x), P(d, y)), P(2, m))]
        out.append((["x", "y"], eqs))
        out.append((["y", "x"], list(reversed(eqs))))
    out += [
        (["x", "y"], [(y, 2), (S(x, y), 5)]),                       # needs a row swap
        (["x", "y"], [(S(x, y), 5), (S(x, y), 5)]),                 # underdetermined
        (["x", "y"], [(S(x, y), n)]),                               # underdetermined
        (["x", "y"], [(x, 1), (y, 2), (S(x, y), 4)]),               # overdetermined, inconsistent
        (["x", "y"], [(x, 1), (y, 2), (S(x, y), 3)]),               # overdetermined, consistent
        (["x"], [(P(2, x), n)]),                                    # not integral
        (["x"], [(P(2, x), P(2, n))]),                              # integral after division
        (["x", "y", "z"], [(S(x, y, z), n), (S(y, z), m), (z, 3)]),
        (["x", "y", "z"], [(z, 3), (S(y, z), m), (S(x, y, z), n)]),
        (["x", "y"], [(S(x, 1), S(y, 2)), (S(x, y), n)]),           # constants on both sides
        (["x", "y"], [(S(x, n), S(y, m)), (y, n)]),
        (["x"], [(S(x, n), S(P(2, x), m))]),                        # unknown on both sides
        (["x", "y"], [(S(x, P(-1, y)), 0), (S(x, y), P(2, n))]),
        # over-determined: the extra equation agrees / disagrees with the others only in its parameter part
        (["x"], [(x, n), (x, m)]), (["x"], [(x, n), (x, n)]), (["x"], [(x, S(n, 1)), (P(2, x), S(P(2, n), 2))]),
        (["x"], [(x, S(n, 1)), (P(2, x), S(P(2, m), 2))]), (["x", "y"], [(x, n), (y, m), (S(x, y), S(n, m))]),
        (["x", "y"], [(x, n), (y, m), (S(x, y), S(n, n))]), (["x", "y"], [(x, n), (y, 2), (S(x, y), S(m, 2))]),
        (["x", "y"], [(S(x, y), n), (S(x, P(-1, y)), m), (P(2, x), S(n, m)), (P(2, y), S(n, P(-1, m)))]),
        (["x", "y"], [(S(x, y), n), (S(x, P(-1, y)), m), (P(2, x), S(n, m)), (P(2, y), S(n, m))]),
    ]
    return out


def check_system(i, tier):
    from pymbolic.algorithm import solve_affine_equations_for
    from pymbolic.mapper.evaluator import EvaluationMapper
    sym.set_family("int")
    unknowns, eqs = systems()[i]
    text = f"solve {unknowns} from {[f'{a} = {b}' for a, b in eqs]}"
    res = ItemResult(item=text[:200], sample={"unknowns": unknowns, "equations": [f"{a} = {b}" for a, b in eqs]})
    res.paths = 1
    params = ["n", "m"]

    def viol(kind, detail):
        res.status = "violation"
        res.violations.append(Violation(sig=f"system {i} {text[:120]} :: {kind}", kind=f"solve-{kind}", detail=detail,
                                        replay={"unknowns": unknowns, "equations": [f"{a} = {b}" for a, b in eqs]}))
    # independent oracle over the rationals: unique? integral for all integer parameters?
    cols = unknowns + params + ["1"]

    def lin(e):
        from pymbolic.mapper.coefficient import CoefficientCollector
        if not isinstance(e, p.Expression):
            return {"1": Fraction(e)}
        d = CoefficientCollector()(e)
        return {(k.name if isinstance(k, p.Expression) else "1"): Fraction(v) for k, v in d.items()}
    rows = []
    for a, b in eqs:
        la, lb = lin(a), lin(b)
        row = []
        for c in cols:
            v = la.get(c, 0) - lb.get(c, 0)
            row.append(v if c in unknowns else -v)
        rows.append(row)
    nu = len(unknowns)
    rr = _rref(rows)
    pivots = [next(j for j, v in enumerate(r) if v != 0) for r in rr]
    consistent = all(pv < nu for pv in pivots)
    unique = consistent and sorted(pv for pv in pivots if pv < nu) == list(range(nu))
    integral = unique and all(v.denominator == 1 for r in rr for v in r)
    q = Query()
    try:
        sol = solve_affine_equations_for(unknowns, eqs)
        returned = True
    except RuntimeError as e:
        returned, err = False, e
    except Exception as e:  # noqa: BLE001
        viol("raises", f"raised {e!r}")
        return res
    res.path_assertions += 1
    if not returned:
        if unique and integral:
            viol("refuses-solvable", f"raised {err!r} although the system determines every unknown uniquely and integrally")
        return res
    if not unique:
        viol("accepts-not-unique", f"returned {sol} although the system does not determine the unknowns uniquely "
                                   f"(consistent={consistent}, rref={rr})")
        return res
    # the returned assignments satisfy every equation identically in the parameters (z3, LIA)
    env = {n: sym.var(n, "int")[0] for n in params}
    try:
        for u in unknowns:
            val = sol[V(u)]
            env[u] = EvaluationMapper(env)(val) if isinstance(val, p.Expression) else val
    except Exception as e:  # noqa: BLE001
        viol("bad-result", f"result {sol} cannot be evaluated: {e!r}")
        return res
    for a, b in eqs:
        res.path_assertions += 1
        va = EvaluationMapper(env)(a) if isinstance(a, p.Expression) else a
        vb = EvaluationMapper(env)(b) if isinstance(b, p.Expression) else b
        verdict, model = q.valid([], sym.eq_term(va, vb, "int"))
        if verdict == "unsat":
            continue
        if verdict == "unknown":
            res.status = "inconclusive"
            continue
        pv = {n: sym.model_value(model, env[n]) for n in params}
        viol("equation-violated", f"returned {sol}; with parameters {pv} the equation {a} = {b} does not hold")
        break
    return H.finish(res, [], q)

# }}}


def items(tier):
    out = [("cc", i, t) for i in range(len(cc_skeletons())) for t in range(len(TARGET_SETS))]
    out += [("gauss", 2, 2, 1, 1), ("gauss", 2, 1, 1, 1), ("gauss", 1, 2, 1, 1), ("gauss", 2, 1, 2, 1), ("gauss", 1, 3, 1, 1)]
    if tier == "thorough":
        out += [("gauss", 2, 2, 2, 1), ("gauss", 2, 3, 1, 1), ("gauss", 3, 2, 1, 1), ("gauss", 2, 2, 1, 2)]
    out += [("system", i) for i in range(len(systems()))]
    return out


def twins(tier):
    return [("twin_cc",), ("twin_gauss",)]


def check_item(item, tier):
    if item[0] == "cc":
        return check_cc(item[1], item[2], tier)
    if item[0] == "gauss":
        return check_gauss(item[1], item[2], item[3], item[4], tier)
    if item[0] == "system":
        return check_system(item[1], tier)
    if item[0] == "twin_cc":
        return check_cc(0, 0, tier, twin=True)
    if item[0] == "twin_gauss":
        return check_gauss(2, 2, 1, 1, tier, twin=True)
    raise ValueError(item)
