"""C16 — pattern matching results are sound.

For every (pattern, target) pair the records returned by the real one-directional
unifier are checked: only candidate variables are bound; instantiating the pattern
with the bindings and evaluating pattern instance and target on z3 proxies (sums
and products are the integer ring operations, calls/subscripts uninterpreted)
gives equal values for all atom values - a necessary condition for equality modulo
AC that has no false alarms, decided by z3; the AC-canonical forms are equal (path
assertion and replay criterion).  Same law for the matchpy bridge."""
from __future__ import annotations

import itertools

import z3

import pymbolic.primitives as p
from pv import harness as H
from pv.common import ItemResult, Violation
from pv.engine import sym
from pv.engine.explore import Explorer, HarnessError, Query
from pv.props.c04 import children_of

BOUNDS = {"quick": {"patterns": "24 hand-written + every 12th of 550 generated sums/products of 2-3 pattern pieces", "substitutions": 5, "operand_orders": "as built and reversed", "cross_pairs": "every pattern "
                    "against instances of every other pattern", "max_paths": 64},
          "thorough": {"patterns": "24 + all 550 generated", "candidate_sets": "full, minimal and every proper subset of the pattern's variables",
                       "cross_pairs": "all 24 hand-written", "max_paths": 256}}
ASSUMPTIONS = ["equal modulo AC implies equal value under every interpretation: the solver clause is a necessary condition",
               "matchpy's own algorithms are exercised, not encoded"]
RULE = "one item per (pattern, target family); records checked individually"

V = p.Variable
CAND = ["a", "b", "c"]


def S(*c):
    return p.Sum(tuple(c))


def P(*c):
    return p.Product(tuple(c))


def patterns():
    a, b, c, f, g, arr = V("a"), V("b"), V("c"), V("f"), V("g"), V("arr")
    return [
        S(a, b), S(P(a, b), c), S(p.Call(f, (a,)), b), p.Call(f, (a, b)), S(p.Power(a, 2), b), p.Quotient(a, b),
        p.Subscript(arr, a), p.Subscript(arr, (a, b)), S(p.Call(f, (a,)), p.Call(f, (b,)), c), P(a, p.Call(f, (b,))),
        P(S(a, 1), b), p.Comparison(a, "<", b), p.If(p.Comparison(a, "<", 0), b, c), S(a, a), S(P(a, a), b), S(P(2, a), b),
        p.Call(f, (S(a, b),)), S(a, p.Call(f, (a,))), P(a, b, c), S(p.Power(a, 2), p.Power(b, 2), c), P(p.Call(f, (a,)), p.Call(f, (b,)), c),
        S(a, P(b, p.Call(g, (a,)))), p.Power(S(a, b), c), S(p.Subscript(arr, a), b),
        # one variable twice below a non-commutative node
        p.Call(f, (a, a)), p.Power(a, a), p.Comparison(p.Call(g, (a,)), "<", a), p.If(p.Comparison(a, "<", 0), a, b),
        p.Subscript(arr, (a, a)), p.Call(f, (a, b, a)), p.Quotient(a, S(a, b)),
        p.FloorDiv(a, b), p.Remainder(a, b), S(p.FloorDiv(a, 2), b), p.Comparison(a, "<=", S(b, 1)),
    ]


def generated_patterns():
    """every sum / product of 2 or 3 operands drawn (with repetition) from a pool of pattern pieces"""
    a, b, c, f, g, arr = V("a"), V("b"), V("c"), V("f"), V("g"), V("arr")
    pools = {
        p.Sum: [a, b, c, p.Call(f, (a,)), p.Call(f, (b,)), p.Call(g, (a,)), P(a, b), P(2, a), p.Power(a, 2), p.Subscript(arr, b)],
        p.Product: [a, b, c, p.Call(f, (a,)), p.Call(f, (b,)), S(a, 1), S(a, b), p.Power(a, 2), p.Subscript(arr, b), 2],
    }
    out = []
    for cls, pool in pools.items():
        for k in (2, 3):
            for combo in itertools.combinations_with_replacement(range(len(pool)), k):
                kids = tuple(pool[i] for i in combo)
                if all(not isinstance(x, p.Expression) for x in kids):
                    continue
                out.append(cls(kids))
    return out


_PAT_CACHE = {}


def all_patterns(tier):
    if tier not in _PAT_CACHE:
        gen = generated_patterns()
        _PAT_CACHE[tier] = patterns() + (gen if tier == "thorough" else gen[5::12])
    return _PAT_CACHE[tier]


def substitutions():
    x, y, z, f = V("x"), V("y"), V("z"), V("f")
    return [
        ("renaming", {"a": x, "b": y, "c": z}), ("renaming2", {"a": z, "b": x, "c": y}),
        ("exprs", {"a": S(x, 1), "b": P(2, y), "c": z}), ("nested", {"a": p.Call(f, (x,)), "b": P(x, y), "c": x}),
        ("noninjective", {"a": x, "b": x, "c": x}), ("powers", {"a": P(2, x), "b": p.Power(x, 2), "c": S(y, z)}),
        # targets that use the pattern's own variable names
        ("renaming-identity", {}), ("renaming-rotated", {"a": V("b"), "b": V("c"), "c": V("a")}),
        ("own-names", {"a": V("a"), "b": S(V("a"), V("c")), "c": V("b")}),
    ]


def subst(e, m):
    """independent substitution of variables by name"""
    if isinstance(e, p.Variable):
        return m.get(e.name, e)
    if isinstance(e, tuple):
        return tuple(subst(c, m) for c in e)
    if not isinstance(e, p.Expression):
        return e
    import dataclasses
    vals = []
    for fld in dataclasses.fields(e):
        v = getattr(e, fld.name)
        if isinstance(v, (p.Expression, tuple)):
            v = subst(v, m)
        vals.append(v)
    return type(e)(*vals)


def _replace_last(e, name, repl):
    """replace the last occurrence (in traversal order) of variable `name` -> (tree, replaced?)"""
    state = {"left": None}

    def count(x):
        if isinstance(x, p.Variable):
            return int(x.name == name)
        return sum(count(c) for c in children_of(x))
    total = count(e)
    if total < 2:
        return e, False
    state["left"] = total

    def rec(x):
        import dataclasses
        if isinstance(x, p.Variable):
            if x.name == name:
                state["left"] -= 1
                if state["left"] == 0:
                    return repl
            return x
        if isinstance(x, tuple):
            return tuple(rec(c) for c in x)
        if not isinstance(x, p.Expression):
            return x
        return type(x)(*[rec(getattr(x, f.name)) if isinstance(getattr(x, f.name), (p.Expression, tuple)) else getattr(x, f.name)
                         for f in dataclasses.fields(x)])
    return rec(e), True


def reverse_ac(e):
    if isinstance(e, (p.Sum, p.Product)):
        return type(e)(tuple(reverse_ac(c) for c in reversed(e.children)))
    if isinstance(e, tuple):
        return tuple(reverse_ac(c) for c in e)
    if not isinstance(e, p.Expression):
        return e
    import dataclasses
    return type(e)(*[reverse_ac(getattr(e, f.name)) if isinstance(getattr(e, f.name), (p.Expression, tuple)) else getattr(e, f.name)
                     for f in dataclasses.fields(e)])


AC_UNIFIER = (p.Sum, p.Product)
AC_MATCHPY = (p.Sum, p.Product, p.LogicalOr, p.LogicalAnd, p.BitwiseOr, p.BitwiseAnd, p.BitwiseXor)


def _s(e):
    """text of an expression that may contain wildcards (which the stringifier does not print)"""
    try:
        return str(e)
    except NotImplementedError:
        return repr(e)


def flatten_ac(e):
    """regroup nested sums / products into flat ones, keeping operand order"""
    if isinstance(e, AC_UNIFIER):
        kids = []
        for c in e.children:
            c = flatten_ac(c)
            kids.extend(c.children if type(c) is type(e) else [c])
        return type(e)(tuple(kids))
    if isinstance(e, tuple):
        return tuple(flatten_ac(c) for c in e)
    if not isinstance(e, p.Expression):
        return e
    import dataclasses
    return type(e)(*[flatten_ac(getattr(e, f.name)) if isinstance(getattr(e, f.name), (p.Expression, tuple)) else getattr(e, f.name)
                     for f in dataclasses.fields(e)])


def canon(e, ac=AC_UNIFIER, flatten=True):
    """AC-canonical form: flatten and sort the AC nodes; subscript indices as tuples"""
    if isinstance(e, ac):
        kids = []
        for c in e.children:
            c = canon(c, ac, flatten)
            if flatten and type(c) is type(e):
                kids.extend(c.children)
            else:
                kids.append(c)
        if flatten and ac is AC_UNIFIER:
            # a free pattern variable that is left no operand is bound to the neutral element (0 in a sum, 1 in a product):
            # a + b + 0 counts as the regrouping a + b
            neutral = 0 if isinstance(e, p.Sum) else 1
            kept = [c for c in kids if isinstance(c, p.Expression) or isinstance(c, bool) or c != neutral]
            if kept and len(kept) != len(kids):
                kids = kept
                if len(kids) == 1:
                    return kids[0]
        kids.sort(key=repr)
        return type(e)(tuple(kids))
    if isinstance(e, p.Subscript):
        idx = e.index if isinstance(e.index, tuple) else (e.index,)
        return p.Subscript(canon(e.aggregate, ac, flatten), tuple(canon(i, ac, flatten) for i in idx))
    if isinstance(e, tuple):
        return tuple(canon(c, ac, flatten) for c in e)
    if not isinstance(e, p.Expression):
        return e
    import dataclasses
    return type(e)(*[canon(getattr(e, f.name), ac, flatten) if isinstance(getattr(e, f.name), (p.Expression, tuple)) else getattr(e, f.name)
                     for f in dataclasses.fields(e)])


def _env():
    env = {n: sym.var(n, "int")[0] for n in ("x", "y", "z", "u", "a", "b", "c", "R")}
    env["f"] = sym.UF("f", "int")
    env["g"] = sym.UF("g", "int")
    env["arr"] = sym.UFArray("arr", "int")
    return env


def _viol(res, sig, kind, detail):
    res.status = "violation"
    res.violations.append(Violation(sig=sig, kind=kind, detail=detail, replay={"detail": detail}))


def values_equal(e1, e2, q, res, env_extra=None):
    """z3: e1 and e2 evaluate equally for all atom values (on every path); -> (ok, witness-env-text)"""
    from pymbolic.mapper.evaluator import EvaluationMapper
    sym.set_family("int")
    env = _env()
    if env_extra:
        env.update(env_extra())

    def harness():
        return H.outcome(lambda: EvaluationMapper(env)(e1) if isinstance(e1, p.Expression) else e1), \
            H.outcome(lambda: EvaluationMapper(env)(e2) if isinstance(e2, p.Expression) else e2)
    ex = Explorer(pre=[], max_paths=128, timeout_ms=10000)
    cmp_ = H.Cmp(q, "int")
    for path in _paths(ex, harness, res):
        if path.exc is not None:
            return True, ""      # outside the proxy model: no claim
        o, i = path.result
        if o[0] == "exc" and i[0] == "exc":
            continue
        verdict, model, why = cmp_(path.pc, i, o)
        res.path_assertions += 1
        if verdict == "sat":
            if model is None:
                model = H.path_model([], path.pc)
            cenv = H.concretise_env(env, model, exact=True)
            return False, H.env_text({k: v for k, v in cenv.items() if k in "xyzuabcR"})
    return True, ""


def _paths(ex, harness, res):
    try:
        yield from ex.run(harness)
    finally:
        H.finish(res, [ex.stats], Query())


def check_unify(pi, tier, twin=False):
    from pymbolic.mapper.unifier import UnidirectionalUnifier
    pats = all_patterns(tier)
    pat = pats[pi]
    res = ItemResult(item=f"unify pattern {pat}", sample={"pattern": str(pat), "candidates": CAND})
    q = Query()
    used = {v for v in CAND if _mentions(pat, v)}
    targets = []
    for sname, sm in substitutions():
        t = subst(pat, sm)
        targets.append((f"{sname}", t, sname.startswith("renaming")))
        targets.append((f"{sname}-reversed", reverse_ac(t), sname.startswith("renaming")))
        ft = flatten_ac(t)
        if ft != t:
            targets.append((f"{sname}-flat", ft, False))
    if isinstance(pat, (p.Sum, p.Product)):
        # longer targets: leftovers must be partitioned among the free variables
        t = subst(pat, substitutions()[0][1])
        extra = (V("u"), p.Call(V("f"), (V("u"),)), 3)
        for k in (1, 2, 3):
            targets.append((f"extended{k}", type(pat)(tuple(t.children) + extra[:k]), False))
            targets.append((f"extended{k}-reversed", type(pat)(tuple(reversed(tuple(t.children) + extra[:k]))), False))
    others = patterns() if tier == "thorough" else patterns()[::3]
    for oj, other in enumerate(others):
        if other is not pat:
            targets.append((f"other{oj}", subst(other, substitutions()[0][1]), False))
            targets.append((f"other{oj}-own-names", other, False))
    # the same operands under a sibling node class / operator (must not match): / vs // vs %, + vs *, < vs <=
    ren = substitutions()[0][1]
    siblings = {p.Quotient: (p.FloorDiv, p.Remainder), p.FloorDiv: (p.Quotient, p.Remainder), p.Remainder: (p.Quotient, p.FloorDiv)}
    if type(pat) in siblings:
        for cls in siblings[type(pat)]:
            targets.append((f"sibling-{cls.__name__}", cls(subst(pat.numerator, ren), subst(pat.denominator, ren)), False))
    if isinstance(pat, (p.Sum, p.Product)):
        other_cls = p.Product if isinstance(pat, p.Sum) else p.Sum
        targets.append((f"sibling-{other_cls.__name__}", other_cls(tuple(subst(c, ren) for c in pat.children)), False))
    if isinstance(pat, p.Comparison):
        for op_ in ("<", "<=", "==", ">"):
            if op_ != pat.operator:
                targets.append((f"sibling-op{op_}", p.Comparison(subst(pat.left, ren), op_, subst(pat.right, ren)), False))
    # the pattern with one occurrence of a repeated variable changed (near misses, also with the pattern's own names)
    for nm in sorted(used):
        for repl in (V("x"), V("b") if nm != "b" else V("a")):
            t, done = _replace_last(pat, nm, repl)
            if done:
                targets.append((f"lastocc-{nm}->{repl}", t, False))
    for tname, target, must_match in targets:
        cand_sets = [CAND] + ([sorted(used)] if used and sorted(used) != CAND else []) + [[], frozenset()]
        if tier == "thorough" and not twin:
            cand_sets += [list(cs) for k in range(0, len(used)) for cs in itertools.combinations(sorted(used), k)]
        for cands in cand_sets:
            try:
                recs = UnidirectionalUnifier(cands)(pat, target)
            except Exception as e:  # noqa: BLE001
                _viol(res, f"unify {pat} ~ {target} raises", "unify-raises", f"unify({pat}, {target}) raised {e!r}")
                continue
            res.path_assertions += 1
            if must_match and used <= set(cands) and not recs:
                _viol(res, f"unify {pat} ~ {target} [{tname}] none", "unify-no-record",
                      f"target {target} is the pattern {pat} under an injective renaming, but no record was returned")
            for rec in recs[:6]:
                bound = dict(rec.lmap)
                if twin:
                    bound = {k: (V("x") if k == "b" else v) for k, v in bound.items()}
                extra = set(bound) - set(cands)
                if extra:
                    _viol(res, f"unify {pat} ~ {target} binds {sorted(extra)}", "unify-binds-noncandidate",
                          f"record {rec} binds {sorted(extra)}, which are not candidate variables {cands}")
                    continue
                inst = subst(pat, bound)
                ok, wit = values_equal(inst, target, q, res)
                same_ac = canon(inst) == canon(target)
                if not ok or not same_ac:
                    if ok and not same_ac and not twin:
                        # value-equal under every interpretation explored but not AC-equal: report with the structural evidence
                        pass
                    _viol(res, f"unify {pat} ~ {target} [{tname}] rec={sorted((k, str(v)) for k, v in bound.items())}",
                          "unify-unsound-record",
                          f"pattern {pat}, target {target}: record {{{', '.join(f'{k}={v}' for k, v in sorted(bound.items()))}}} "
                          f"instantiates the pattern to {inst}, which is not the target modulo AC"
                          + (f" (values differ at {wit})" if not ok else ""))
    return H.finish(res, [], q)


def _mentions(e, name):
    if isinstance(e, p.Variable):
        return e.name == name
    return any(_mentions(c, name) for c in children_of(e))


# {{{ matchpy bridge

def check_matchpy_roundtrip():
    from pymbolic.interop.matchpy.tofrom import FromMatchpyExpressionMapper, ToMatchpyExpressionMapper
    res = ItemResult(item="matchpy round trip", sample={"family": "From(To(e)) vs e"})
    x, y, f, arr = V("x"), V("y"), V("f"), V("arr")
    exprs = patterns() + [
        p.FloorDiv(x, y), p.Remainder(x, 3), p.LeftShift(x, 2), p.RightShift(x, y), p.BitwiseOr((x, y, 1)), p.BitwiseAnd((x, y)),
        p.BitwiseXor((x, 1)), p.BitwiseNot(x), p.LogicalAnd((p.Comparison(x, "<", y), p.LogicalNot(p.Comparison(x, "==", 0)))),
        p.LogicalOr((p.Comparison(x, ">=", y), p.Comparison(x, "!=", 1))), p.Subscript(arr, (x,)), p.Subscript(arr, x),
        S(x, 2.5, P(x, x, y)), p.Call(f, ()), p.If(p.Comparison(x, "<=", y), S(x, 1), P(y, 2)),
        S(S(x, y), 1), P(x, P(y, 2)), p.Power(S(x, S(y, 1)), 2), p.Call(f, (P(P(x, y), x),)),
        # neutral / absorbing constants and one-operand nodes written explicitly
        S(x, 0), S(0, x, y), P(x, 1), P(1, x, y), P(x, 0), P(0, x, y), S(x), P(x), S(P(x, 1), 0), p.Call(f, (S(x, 0), P(1, y))),
        S(x, 0.0), P(x, 1.0), p.Power(x, 1), p.Power(x, 0), p.Quotient(x, 1), S(x, -1), P(-1, x),
    ]
    for e in exprs:
        res.path_assertions += 1
        try:
            back = FromMatchpyExpressionMapper()(ToMatchpyExpressionMapper()(e))
        except NotImplementedError:
            continue
        except Exception as ex_:  # noqa: BLE001
            _viol(res, f"matchpy roundtrip {e} raises", "matchpy-roundtrip", f"From(To({e})) raised {ex_!r}")
            continue
        if canon(back, AC_MATCHPY, False) != canon(e, AC_MATCHPY, False):
            regroup = canon(back, AC_MATCHPY, True) == canon(e, AC_MATCHPY, True)
            _viol(res, f"matchpy roundtrip {H.stable_text(e)}", "matchpy-roundtrip-regrouped" if regroup else "matchpy-roundtrip",
                  f"From(To({e!r})) = {back!r}, not the input up to operand order / index tuples"
                  + (" (nested associative operands were regrouped into one flat node)" if regroup else ""))
    res.paths = 1
    return res


def _instantiate_wild(pat, binding):
    """replace dot wildcards by their bindings, splice star wildcards (multisets) into the surrounding node"""
    if isinstance(pat, p.DotWildcard):
        return binding[pat.name]
    if isinstance(pat, (p.Sum, p.Product)):
        kids = []
        for c in pat.children:
            if isinstance(c, p.StarWildcard):
                b = binding.get(c.name, {})
                for el, cnt in (b.items() if hasattr(b, "items") else [(x, 1) for x in b]):
                    kids.extend([el] * cnt)
            else:
                kids.append(_instantiate_wild(c, binding))
        return type(pat)(tuple(kids)) if len(kids) != 1 else kids[0]
    if isinstance(pat, tuple):
        return tuple(_instantiate_wild(c, binding) for c in pat)
    if not isinstance(pat, p.Expression):
        return pat
    import dataclasses
    return type(pat)(*[_instantiate_wild(getattr(pat, f.name), binding) if isinstance(getattr(pat, f.name), (p.Expression, tuple))
                       else getattr(pat, f.name) for f in dataclasses.fields(pat)])


def check_matchpy_match():
    import pymbolic.interop.matchpy as m
    res = ItemResult(item="matchpy match / match_anywhere / replace_all", sample={"family": "dot and star wildcards"})
    q = Query()
    x, y, z, f = V("x"), V("y"), V("z"), V("f")
    w1, w2, ws = p.DotWildcard("w1_"), p.DotWildcard("w2_"), p.StarWildcard("ws_star")
    cases = [
        (S(w1, w2), S(x, P(2, y))), (P(w1, p.Call(f, (w2,))), P(p.Call(f, (S(x, 1),)), y)), (p.Power(w1, 2), p.Power(S(x, y), 2)),
        (S(P(w1, w1), w2), S(P(x, x), z)), (p.Call(f, (w1, w2)), p.Call(f, (x, S(y, 1)))), (S(w1, p.Call(f, (w1,))), S(p.Call(f, (x,)), x)),
        (p.Comparison(w1, "<", w2), p.Comparison(S(x, 1), "<", y)), (p.Quotient(w1, w2), p.Quotient(x, S(y, z))),
        (P(x, z, ws), P(x, y, y, z)), (S(x, ws), S(x, y, y, P(2, z))), (P(w1, ws), P(x, x, y)),
    ]
    for pat, subj in cases:
        try:
            ms = list(m.match(subj, pat))
        except Exception as e:  # noqa: BLE001
            _viol(res, f"matchpy match {_s(pat)} ~ {subj} raises", "matchpy-match", f"match({subj}, {_s(pat)}) raised {e!r}")
            continue
        res.path_assertions += 1
        for b in ms[:8]:
            try:
                inst = _instantiate_wild(pat, b)
            except Exception as e:  # noqa: BLE001
                _viol(res, f"matchpy match {_s(pat)} ~ {subj} binding", "matchpy-match", f"binding {b} cannot instantiate the pattern: {e!r}")
                continue
            ok, wit = values_equal(inst, subj, q, res)
            if not ok or canon(inst) != canon(subj):
                _viol(res, f"matchpy match {_s(pat)} ~ {subj} b={sorted((k, str(v)) for k, v in b.items())}", "matchpy-match",
                      f"match({subj}, {_s(pat)}) reported {dict(b)}; the instantiated pattern {inst} is not the subject modulo AC"
                      + (f" (values differ at {wit})" if not ok else ""))
    # match_anywhere
    subj = S(P(2, p.Call(f, (S(x, y),))), p.Power(S(x, y), 2), z)
    for pat in [S(w1, w2), p.Call(f, (w1,)), p.Power(w1, 2), P(2, w1)]:
        res.path_assertions += 1
        try:
            found = list(m.match_anywhere(subj, pat))
        except Exception as e:  # noqa: BLE001
            _viol(res, f"matchpy match_anywhere {_s(pat)} raises", "matchpy-match-anywhere", f"raised {e!r}")
            continue
        for b, sub in found[:10]:
            inst = _instantiate_wild(pat, b)
            ok, wit = values_equal(inst, sub, q, res)
            if not ok or canon(inst) != canon(sub):
                _viol(res, f"matchpy match_anywhere {_s(pat)} at {sub}", "matchpy-match-anywhere",
                      f"match_anywhere reported {dict(b)} at subexpression {sub}; instantiated pattern {inst} differs")
    # replace_all with a star wildcard: x*z*rest -> R*rest ; with R bound to x*z the value must not change
    from pymbolic.mapper.evaluator import EvaluationMapper

    def repl(ws_star):
        args = [V("R")]
        for k, cnt in ws_star.items():
            args.extend([k] * cnt)
        return P(*args) if len(args) > 1 else args[0]
    for subj in [P(x, y, z), P(x, y, y, z), P(x, z, y, y, y), P(x, S(y, 1), S(y, 1), z), P(x, z)]:
        res.path_assertions += 1
        try:
            rule = m.make_replacement_rule(P(x, z, ws), repl)
            out = m.replace_all(subj, [rule])
        except Exception as e:  # noqa: BLE001
            _viol(res, f"matchpy replace_all {subj} raises", "matchpy-replace", f"raised {e!r}")
            continue
        # evaluate `out` with R := x*z
        sym.set_family("int")
        env = _env()
        env["R"] = env["x"] * env["z"]
        v1 = EvaluationMapper(env)(out) if isinstance(out, p.Expression) else out
        v2 = EvaluationMapper(env)(subj)
        verdict, model = q.valid([], sym.eq_term(v1, v2, "int"))
        if verdict == "sat":
            _viol(res, f"matchpy replace_all {subj}", "matchpy-replace",
                  f"replace_all({subj}, x*z*rest -> R*rest) = {out}; with R = x*z this no longer has the value of the subject "
                  f"(x={sym.model_value(model, env['x'])}, y={sym.model_value(model, env['y'])}, z={sym.model_value(model, env['z'])})")
    # a dot-wildcard rule applied below other nodes: f(c, w_) -> 42*w_ ; interpreting f(u, t) as 42*t the value of the
    # subject must not change (calls, subscripts, tuples of arguments, sums and products around the match)
    cvar, d_, e_, g_, arr_ = V("c"), V("d"), V("e"), V("g"), V("arr")
    wd = p.DotWildcard("w_")
    fc = lambda t: p.Call(f, (cvar, t))  # noqa: E731
    subjects = [fc(d_), S(fc(d_), 1), P(2, fc(d_)), p.Call(g_, (fc(d_),)), p.Call(g_, (fc(d_), e_)), p.Call(g_, (e_, fc(d_))),
                p.Subscript(arr_, fc(d_)), p.Subscript(arr_, (fc(d_), 1)), p.Call(g_, (S(fc(d_), e_),)), p.Power(fc(d_), 2),
                p.Call(g_, (fc(fc(d_)),)), p.If(p.Comparison(fc(d_), "<", e_), fc(e_), d_), p.Quotient(e_, fc(d_))]
    for subj in subjects:
        res.path_assertions += 1
        try:
            rule = m.make_replacement_rule(p.Call(f, (cvar, wd)), lambda w_: P(42, w_))
            out = m.replace_all(subj, [rule])
        except Exception as e:  # noqa: BLE001
            _viol(res, f"matchpy replace_all nested {H.stable_text(subj)} raises", "matchpy-replace",
                  f"replace_all({H.stable_text(subj)}, f(c, w_) -> 42*w_) raised {e!r}")
            continue
        def extra():
            return {"d": sym.var("d", "int")[0], "e": sym.var("e", "int")[0], "f": (lambda u, t: 42 * t)}
        # subscript indices as tuples on both sides (the bridge may write every index as a tuple)
        ok, wit = values_equal(canon(out, AC_MATCHPY, False), canon(subj, AC_MATCHPY, False), q, res, env_extra=extra)
        if not ok:
            _viol(res, f"matchpy replace_all nested {H.stable_text(subj)}", "matchpy-replace",
                  f"replace_all({H.stable_text(subj)}, f(c, w_) -> 42*w_) = {H.stable_text(out)}, which is not the subject with each "
                  f"f(c, t) replaced by 42*t (values differ at {wit})")
    return H.finish(res, [], q)

# }}}


def items(tier):
    return [("unify", i) for i in range(len(all_patterns(tier)))] + [("mp_roundtrip",), ("mp_match",)]


def twins(tier):
    return [("twin_unify", 1)]


def check_item(item, tier):
    k = item[0]
    if k == "unify":
        return check_unify(item[1], tier)
    if k == "twin_unify":
        return check_unify(item[1], tier, twin=True)
    if k == "mp_roundtrip":
        return check_matchpy_roundtrip()
    if k == "mp_match":
        return check_matchpy_match()
    raise ValueError(item)
