"""C14 — generated C code computes what the evaluator computes.

The C expression text emitted by CCodeMapper, together with the hoisted
common-subexpression assignments, is parsed by the harness's own C front end
(pv/cexpr.py: C precedence/associativity, truncating integer division) and
evaluated on z3 proxies; z3 proves per path that the value equals the evaluator's
for every environment in range.  A counterexample is replayed by compiling a real C
program with gcc (pure arithmetic skeletons) or with the concrete C semantics."""
from __future__ import annotations

import itertools
import os
import shutil
import subprocess
import tempfile

import pymbolic.primitives as p
from pv import cexpr
from pv import harness as H
from pv import skel
from pv.common import ItemResult, Violation
from pv.engine import explore, sym
from pv.engine.explore import Explorer, HarnessError, Query

BOUNDS = {"quick": {"trees": "C-expressible fragment, depth <= 2 exhaustive (integer mode: + * // % ** shifts bitwise logic "
                             "comparisons ?: calls subscripts CSE; real mode: + * / **), constants in every slot",
                    "int_range": "variables -32..31, operands of // and % assumed >= 0 / > 0", "histories": "<= 3 expressions per "
                    "mapper, copies", "max_paths": 256, "solver_timeout_ms": 10000},
          "thorough": {"trees": "quick + depth 3 over 8 kinds", "max_paths": 1024, "solver_timeout_ms": 30000}}
ASSUMPTIONS = ["pv/cexpr.py is the semantics of the emitted C text (self-tested against gcc)", "no overflow: 64-bit values in a "
               "stated range", "floor division / remainder only on non-negative dividend and positive divisor",
               "floating point modelled as reals (real mode)"]
RULE = "one item per (skeleton, mode) / mapper history; non-trivial = C text parsed and compared on >= 1 path"

INT_KINDS = (["sum2", "sum3", "prod2", "prod3", "floordiv", "rem", "pow", "pow2", "pow1", "pow0", "neg"] + skel.BITS + skel.LOGIC + skel.CMPS
             + ["if", "call1", "call2", "sub1", "sub2", "cse", "cse_pfx"])
REAL_KINDS = ["sum2", "sum3", "prod2", "prod3", "quot", "pow", "pow2", "pow1", "pow0", "neg", "cse"]
D3 = ["sum2", "prod2", "floordiv", "rem", "neg", "cse", "if", "band2"]
BOOLISH = set(skel.LOGIC + skel.CMPS)


def is_boolish(c):
    if skel.is_leaf(c):
        return (c[0] == "v" and c[2] == "bool") or (c[0] == "c" and isinstance(c[1], bool))
    return c[0] in BOOLISH or (c[0] == "if" and is_boolish(c[2]) and is_boolish(c[3]))


def well_typed(d):
    if skel.is_leaf(d):
        return True
    k = skel.KINDS[d[0]]
    for st, c in zip(k.slots, d[1:]):
        if st == "bool" and not skel.is_leaf(c) and not is_boolish(c):
            return False
        if st == "bool" and c[0] == "c" and not isinstance(c[1], bool):
            return False
        if st != "bool" and not skel.is_leaf(c) and c[0] in BOOLISH and d[0] not in BOOLISH and d[0] != "if":
            return False      # C's 0/1 vs Python's True/False only meet in boolean positions
        if not well_typed(c):
            return False
    return True


def items(tier):
    out, seen = [], set()
    for mode, kinds in (("int", INT_KINDS), ("real", REAL_KINDS)):
        descs = list(skel.depth1(kinds)) + list(skel.depth2(kinds, kinds)) + list(skel.with_consts(kinds, [0, 1, -1, 2, 3]))
        if tier == "thorough" and mode == "int":
            descs += list(skel.depth3(D3))
        v = lambda n, t="num": ("v", n, t)  # noqa: E731
        if mode == "int":
            descs += [
                ("prod2", v("x1"), ("rem", v("x2"), v("x3"))), ("prod3", v("x1"), ("floordiv", v("x2"), v("x3")), v("x4")),
                ("floordiv", v("x1"), ("prod2", v("x2"), v("x3"))), ("floordiv", v("x1"), ("rem", v("x2"), v("x3"))),
                ("floordiv", ("floordiv", v("x1"), v("x2")), v("x3")), ("floordiv", v("x1"), ("floordiv", v("x2"), v("x3"))),
                ("rem", ("prod2", v("x1"), v("x2")), v("x3")), ("rem", v("x1"), ("prod2", v("x2"), v("x3"))),
                ("cmp_eq", ("band2", v("x1"), v("x2")), v("x3")), ("band2", v("x1"), ("bor2", v("x2"), v("x3"))),
                ("bor2", ("cmp_lt", v("x1"), v("x2")), v("x3")), ("lshift", ("sum2", v("x1"), v("x2")), v("s3", "shift")),
                ("sum2", v("x1"), ("lshift", v("x2"), v("s3", "shift"))),
                ("sum2", ("cse", ("prod2", v("x1"), v("x2"))), ("cse", ("prod2", v("x1"), v("x2")))),
                ("prod2", ("cse_pfx", ("sum2", v("x1"), v("x2"))), ("cse", ("sum2", ("cse_pfx", ("sum2", v("x1"), v("x2"))), v("x3")))),
                # conditionals in every slot of a conditional (boolean-valued ones in the condition slot)
                ("if", ("if", v("b1", "bool"), ("cmp_lt", v("x2"), v("x3")), ("cmp_eq", v("x4"), v("x5"))), v("x6"), v("x7")),
                ("if", ("if", ("cmp_ne", v("x1"), v("x2")), v("b3", "bool"), v("b4", "bool")), ("sum2", v("x5"), ("c", 100)), v("x6")),
                ("sum2", ("c", 1), ("prod2", ("if", ("if", v("b1", "bool"), v("b2", "bool"), ("cmp_gt", v("x3"), v("x4"))),
                                                v("x5"), v("x6")), ("c", 2))),
                ("if", v("b1", "bool"), ("if", v("b2", "bool"), v("x3"), v("x4")), v("x5")),
                ("if", v("b1", "bool"), v("x2"), ("if", v("b3", "bool"), v("x4"), v("x5"))),
                ("land2", ("if", v("b1", "bool"), v("b2", "bool"), v("b3", "bool")), v("b4", "bool")),
                ("lnot", ("if", v("b1", "bool"), v("b2", "bool"), v("b3", "bool"))),
                ("pow", v("x1"), ("c", 2)), ("pow", ("sum2", v("x1"), v("x2")), ("c", 2)), ("pow", v("x1"), ("c", 0)),
                ("pow", v("x1"), ("c", 1)), ("pow", v("x1"), ("c", 3)), ("neg", ("pow", v("x1"), ("c", 2))),
                ("prod2", ("c", -1), ("sum2", v("x1"), v("x2"))), ("sum2", v("x1"), ("neg", ("sum2", v("x2"), v("x3")))),
                ("sum3", v("x1"), ("neg", v("x2")), ("neg", ("prod2", v("x3"), v("x4")))),
            ]
        # constant-exponent powers (printed without a pow() call) around composite bases, in every operand position
        inner = ["prod2", "sum2", "neg"] + (["rem", "floordiv"] if mode == "int" else ["quot"])
        outer = ["prod2", "neg", "sum2"] + (["rem", "floordiv"] if mode == "int" else ["quot"])
        for pk in outer:
            slots = skel.KINDS[pk].slots
            for i in range(len(slots)):
                for powk in ("pow1", "pow2", "pow0"):
                    for ck in inner:
                        nm = skel.Namer()
                        ch = [(powk, skel.node(ck, nm)) if j == i else nm.leaf(sj) for j, sj in enumerate(slots)]
                        descs.append((pk, *ch))
        for d in descs:
            if not well_typed(d):
                continue
            key = (mode, skel.show(d))
            if key not in seen:
                seen.add(key)
                out.append(("tree", d, mode))
    # integer-typed variables with floating-point constants: the constants must stay doubles in the C text
    v = lambda n, t="num": ("v", n, t)  # noqa: E731
    for d in [("quot", v("x1"), ("c", 2.0)), ("quot", ("c", 1.0), ("c", 4.0)), ("sum2", v("x1"), ("quot", v("x2"), ("c", 2.0))),
              ("quot", ("sum2", v("x1"), v("x2")), ("c", 1000.0)), ("prod2", ("c", 0.5), v("x1")), ("quot", v("x1"), ("c", -8.0)),
              ("quot", ("c", 3.0), ("sum2", v("x1"), ("c", 1))), ("prod2", ("quot", v("x1"), ("c", 4.0)), ("c", 2.0)),
              ("quot", ("prod2", v("x1"), ("c", 1.0)), v("x2")), ("sum2", ("quot", ("c", 1.0), ("c", 2.0)), v("x1"))]:
        out.append(("tree", d, "mixed"))
    out += [("history", i) for i in range(6)] + [("cself",)]
    return out


def twins(tier):
    return [("twin", ("rem", ("v", "x1", "num"), ("v", "x2", "num")), "int")]


def _on_div(a, b):
    """domain of the property: non-negative dividend, positive divisor"""
    ta = a.term if isinstance(a, sym.Sym) else None
    tb = b.term if isinstance(b, sym.Sym) else None
    if ta is not None:
        explore.assume(ta >= 0)
    elif a < 0:
        raise explore.PathAbort("negative dividend")
    if tb is not None:
        explore.assume(tb > 0)
    elif b <= 0:
        raise explore.PathAbort("non-positive divisor")


def _truth(v):
    if isinstance(v, sym.Sym):
        return bool(v)
    return bool(v)


def _c_builtins(env):
    e = dict(env)
    e.setdefault("min", lambda *a: _fold(a, lambda x, y: y < x))
    e.setdefault("max", lambda *a: _fold(a, lambda x, y: y > x))
    return e


def _fold(vals, better):
    m = vals[0]
    for v in vals[1:]:
        if better(m, v):
            m = v
    return m


def run_c(text, assignments, env, mode, int_div_python=False):
    """evaluate hoisted assignments in list order, then the expression"""
    cenv = _c_builtins(env)
    ev = cexpr.CEval(cenv, mode=mode, truth=_truth, on_div=_on_div if mode in ("int", "mixed") else None)
    for name, s in assignments:
        if name in cenv:
            raise NameError(f"C name {name!r} assigned twice")
        cenv[name] = ev.ev(cexpr.parse(s))
    return ev.ev(cexpr.parse(text))


def _c_equal_term(cval, pyval, fam):
    """C yields 0/1 where Python yields False/True"""
    import z3
    if isinstance(pyval, (bool, sym.SymBool)) and not isinstance(cval, (bool, sym.SymBool)):
        return sym.truth_term(cval) == sym.truth_term(pyval)
    return sym.eq_term(cval, pyval, fam)


def check_tree(desc, mode, tier, twin=False):
    from pymbolic.mapper.c_code import CCodeMapper
    from pymbolic.mapper.evaluator import EvaluationMapper
    fam = "real" if mode == "real" else ("bv" if "bit" in skel.tags(desc) else "int")
    sym.set_family(fam)
    text = f"{skel.show(desc)} [{mode}]"
    res = ItemResult(item=text, sample={"skeleton": skel.show(desc), "mode": mode})
    expr = skel.build(desc)
    ccm = CCodeMapper()
    try:
        ctext = ccm(expr)
        assigns = list(ccm.cse_name_list)
    except Exception as e:  # noqa: BLE001
        res.status = "violation"
        res.violations.append(Violation(sig=f"{text} :: raises", kind="cgen-raises", detail=f"CCodeMapper()({expr!r}) raised {e!r}",
                                        replay={"expr": repr(expr)}))
        return res
    res.sample["c"] = ctext
    res.sample["assignments"] = assigns

    def viol(kind, detail, replay=None):
        res.status = "violation"
        res.violations.append(Violation(sig=f"{text} :: {kind}", kind=f"cgen-{kind}",
                                        detail=f"{expr!r} -> C `{ctext}` with {assigns}: {detail}",
                                        replay=replay or {"expr": repr(expr), "c": ctext, "assignments": assigns}))
    names = [n for n, _ in assigns]
    res.path_assertions += 1
    if len(set(names)) != len(names):
        viol("duplicate-name", f"hoisted names are not unique: {names}")
    try:
        cexpr.parse(ctext)
        for _, s in assigns:
            cexpr.parse(s)
    except cexpr.CSyntaxError as e:
        viol("unparsable", f"emitted text is not a C expression of the supported subset: {e}")
        return res
    env, pre = H.make_env(desc, fam)
    if fam == "int":
        # integer mode in the Int family: keep the values in the same box as the bit-vector family
        import z3
        for n, t in skel.leaves(desc):
            if t == "num":
                pre += [env[n].term >= -32, env[n].term <= 31]
    orc_expr = p.Remainder(expr.denominator, expr.numerator) if twin else expr

    def harness():
        o = H.outcome(lambda: EvaluationMapper(env)(orc_expr))
        i = H.outcome(lambda: run_c(ctext, assigns, env, mode))
        return o, i

    ex = Explorer(pre=pre, max_paths=BOUNDS[tier]["max_paths"], timeout_ms=BOUNDS[tier]["solver_timeout_ms"])
    q = Query(timeout_ms=BOUNDS[tier]["solver_timeout_ms"])
    try:
        for path in ex.run(harness):
            if path.exc is not None:
                if isinstance(path.exc, sym.Unsupported):
                    res.note = f"outside proxy model: {path.exc}"
                    break
                raise HarnessError(f"harness raised {path.exc!r} on {text}")
            o, i = path.result
            if o[0] == "exc":
                continue          # evaluator undefined here (division by zero, negative shift)
            res.path_assertions += 1
            if i[0] == "exc":
                if isinstance(i[1], (sym.Unsupported,)):
                    res.note = f"outside proxy model: {i[1]}"
                    continue
                verdict, model, why = "sat", None, f"C evaluation {H.show_outcome(i)}"
            else:
                try:
                    goal = _c_equal_term(i[1], o[1], fam)
                except sym.Mismatch as e:
                    verdict, model, why = "sat", None, f"structural mismatch {e}"
                else:
                    verdict, model = q.valid(path.pc, goal)
                    why = "value differs"
            if verdict == "unsat":
                continue
            if verdict == "unknown":
                res.status = "inconclusive"
                res.note = "solver unknown"
                continue
            if model is None:
                model = H.path_model([], path.pc)
            cenv = H.concretise_env(env, model, exact=(mode == "real"))
            exp = H.outcome(lambda: EvaluationMapper(cenv)(orc_expr))
            pure = all(t in ("num", "exp", "shift", "bool") for _, t in skel.leaves(desc)) and mode == "int"
            if pure and shutil.which("gcc") and exp[0] == "val":
                got = _gcc_eval(ctext, assigns, cenv)
                how = "gcc"
            else:
                got = H.outcome(lambda: run_c_concrete(ctext, assigns, cenv, mode))
                how = "concrete C semantics"
            differs = exp[0] == "val" and (got[0] != "val" or not _c_concrete_equal(got[1], exp[1]))
            if not differs:
                raise HarnessError(f"counterexample did not reproduce ({how}): {text} C `{ctext}` env {H.env_text(cenv)}: "
                                   f"{why}; C {got} evaluator {exp}")
            viol("value", f"with {H.env_text(cenv)} ({how}): C gives {got[1] if got[0] == 'val' else got}, evaluator gives {exp[1]}",
                 {"expr": repr(expr), "c": ctext, "assignments": assigns, "env": H.env_text(cenv), "how": how})
            break
    except sym.Unsupported as e:
        res.note = f"outside proxy model: {e}"
    if not ex.complete and res.status == "ok":
        res.status = "inconclusive"
        res.note = "; ".join(ex.inconclusive_reasons[:2])
    return H.finish(res, [ex.stats], q)


def _c_concrete_equal(c, py):
    if isinstance(py, bool):
        return bool(c) == py
    return c == py


def run_c_concrete(text, assignments, cenv, mode):
    env = _c_builtins(cenv)

    def on_div(a, b):
        pass
    ev = cexpr.CEval(env, mode=mode, truth=bool, on_div=on_div)
    for name, s in assignments:
        env[name] = ev.ev(cexpr.parse(s))
    return ev.ev(cexpr.parse(text))


def _gcc_eval(ctext, assigns, cenv):
    """compile and run a real C program containing the hoisted assignments and the expression"""
    decls = "".join(f"  long long {k} = {int(v)}LL;\n" for k, v in cenv.items() if isinstance(v, (int, bool)))
    body = "".join(f"  long long {n} = {s};\n" for n, s in assigns)
    src = ("#include <stdio.h>\n#include <math.h>\n"
           "static long long min(long long a, long long b){return a<b?a:b;}\n"
           "static long long max(long long a, long long b){return a>b?a:b;}\n"
           f"int main(void){{\n{decls}{body}  long long result = (long long)({ctext});\n"
           '  printf("%lld\\n", result);\n  return 0;\n}\n')
    d = tempfile.mkdtemp(prefix="pv_c14_")
    try:
        with open(os.path.join(d, "t.c"), "w") as f:
            f.write(src)
        r = subprocess.run(["gcc", "-O0", "-w", "-o", os.path.join(d, "t"), os.path.join(d, "t.c"), "-lm"],
                           capture_output=True, text=True, timeout=60)
        if r.returncode != 0:
            return ("exc", "gcc: " + r.stderr[:300])
        r = subprocess.run([os.path.join(d, "t")], capture_output=True, text=True, timeout=20)
        if r.returncode != 0:
            return ("exc", f"program exited with {r.returncode}")
        return ("val", int(r.stdout.strip()))
    finally:
        shutil.rmtree(d, ignore_errors=True)


# {{{ histories: names unique, assigned before use, one assignment per distinct wrapped child

def check_history(i, tier):
    from pymbolic.mapper.c_code import CCodeMapper
    res = ItemResult(item=f"history {i}", sample={"family": "sequences of expressions through one CCodeMapper and its copies"})
    x, y, z = (p.Variable(n) for n in "xyz")
    CSE = p.CommonSubexpression
    u = CSE(p.Sum((x, y)), "u")
    u_eq = CSE(p.Sum((p.Variable("x"), p.Variable("y"))), "u")      # equal, distinct object
    w = CSE(p.Product((x, z)), "u")                                  # same prefix, different child
    n1 = CSE(p.Product((y, z)))                                      # no prefix
    n2 = CSE(p.Sum((y, z, 1)))
    nested = CSE(p.Product((u, p.Sum((w, 2)))), "v")
    pool = [p.Sum((u, 1)), p.Product((u_eq, w)), p.Sum((n1, n2, u)), p.Product((nested, n1)), p.Sum((w, w, u)),
            p.Quotient(nested, p.Sum((n2, 3))),
            # the same subexpression under wrappers that are not equal to u: other prefix, no prefix, other scope
            p.Sum((CSE(p.Sum((x, y)), "other"), u)), p.Product((CSE(p.Sum((x, y))), 2)),
            p.Sum((CSE(p.Sum((x, y)), "u", p.cse_scope.GLOBAL), 1)),
            # a prefix whose generated name is already taken by a caller-supplied mapped name
            p.Sum((CSE(p.Product((y, z)), "extern"), 1))]
    ops = ["map", "copy", "copy_mapped"]
    seqs = list(itertools.product(range(len(pool)), repeat=3))[i::6]
    for seq in seqs:
        for plan in (("map", "map", "map"), ("map", "copy", "map"), ("map", "copy_mapped", "map"), ("copy", "map", "orig")):
            res.path_assertions += 1
            m0 = CCodeMapper()
            cur = m0
            trace = []
            try:
                for e_i, op_ in zip(seq, plan):
                    if op_ == "copy":
                        cur = cur.copy()
                    elif op_ == "copy_mapped":
                        # the caller supplies a name for an externally computed value; it must not be in use already
                        taken = {n for n, _ in cur.cse_name_list}
                        ext = "_cse_extern" if "_cse_extern" not in taken else "_cse_outside"
                        # the externally computed value may use names hoisted so far
                        ext_text = f"{cur.cse_name_list[-1][0]} * 17" if cur.cse_name_list else "x*17"
                        cur = cur.copy_with_mapped_cses([(ext, ext_text)])
                    elif op_ == "orig":
                        cur = m0
                    txt = cur(pool[e_i])
                    trace.append((txt, list(cur.cse_name_list)))
            except Exception as e:  # noqa: BLE001
                _hv(res, seq, plan, f"raised {e!r}")
                continue
            for txt, nl in trace:
                names = [n for n, _ in nl]
                if len(set(names)) != len(names):
                    _hv(res, seq, plan, f"hoisted names not unique: {names}")
                    break
                texts = [s for n, s in nl if n not in ("_cse_extern", "_cse_outside")]
                if len(set(texts)) != len(texts):
                    _hv(res, seq, plan, f"a wrapped subexpression is assigned more than once: {nl}")
                    break
                # assigned before use
                defined = {"x", "y", "z"}
                bad = False
                for n, s in nl:
                    used = {t[1] for t in cexpr.tokenize(s) if t[0] == "id"}
                    if not used <= defined | {"pow"}:
                        _hv(res, seq, plan, f"{n} = {s} uses {sorted(used - defined)} before assignment; list {nl}")
                        bad = True
                        break
                    defined.add(n)
                if bad:
                    break
                used = {t[1] for t in cexpr.tokenize(txt) if t[0] == "id"}
                if not used <= defined | {"pow"}:
                    _hv(res, seq, plan, f"expression `{txt}` uses undefined {sorted(used - defined)}; list {nl}")
                    break
    res.paths = 1
    return res


def _hv(res, seq, plan, detail):
    res.status = "violation"
    res.violations.append(Violation(sig=f"history seq={seq} plan={plan}", kind="cgen-history",
                                    detail=f"expressions {seq} with steps {plan}: {detail}", replay={"seq": list(seq), "plan": list(plan)}))

# }}}


def check_cself():
    """the harness's C semantics agree with gcc on a fixed list of expressions and a grid of values"""
    res = ItemResult(item="C semantics self-test", sample={"family": "pv/cexpr.py vs gcc"})
    if not shutil.which("gcc"):
        res.note = "gcc not available"
        res.nontrivial = False
        return res
    exprs = ["a + b * c", "a - b - c", "a / b / c", "a % b * c", "a * b % c", "a * (b % c)", "a << b + c", "a + b << c",
             "a & b == c", "(a & b) == c", "a | b ^ c & a", "a < b == c", "-a * b", "-(a + b)", "~a + b", "!a + b",
             "a < b ? a : b + c", "(a < b ? a : b) + c", "a && b || c", "a || b && c", "a / b * c", "a - (b - c)", "a * -b",
             "min(a, b) + max(b, c)", "a / (b * c)", "a / b % c", "pow(a, 2) + b"]
    grid = [(7, 2, 3), (0, 1, 5), (9, 4, 2), (1, 1, 1), (12, 5, 7)]
    src_lines = []
    for ei, e in enumerate(exprs):
        for a, b, c in grid:
            src_lines.append(f'  {{ long long a={a}, b={b}, c={c}; printf("%lld\\n", (long long)({e})); }}')
    src = ("#include <stdio.h>\n#include <math.h>\nstatic long long min(long long a,long long b){return a<b?a:b;}\n"
           "static long long max(long long a,long long b){return a>b?a:b;}\nint main(void){\n" + "\n".join(src_lines) + "\nreturn 0;}\n")
    d = tempfile.mkdtemp(prefix="pv_c14_")
    try:
        with open(os.path.join(d, "t.c"), "w") as f:
            f.write(src)
        r = subprocess.run(["gcc", "-O0", "-w", "-o", os.path.join(d, "t"), os.path.join(d, "t.c"), "-lm"], capture_output=True, text=True)
        if r.returncode != 0:
            raise HarnessError("gcc failed on the self-test: " + r.stderr[:300])
        outs = subprocess.run([os.path.join(d, "t")], capture_output=True, text=True).stdout.split()
    finally:
        shutil.rmtree(d, ignore_errors=True)
    k = 0
    for e in exprs:
        for a, b, c in grid:
            res.path_assertions += 1
            mine = run_c_concrete(e, [], {"a": a, "b": b, "c": c}, "int")
            if int(mine) != int(outs[k]):
                raise HarnessError(f"C semantics self-test: `{e}` with a={a} b={b} c={c}: harness {mine}, gcc {outs[k]}")
            k += 1
    res.paths = 1
    return res


def check_item(item, tier):
    if item[0] == "tree":
        return check_tree(item[1], item[2], tier)
    if item[0] == "twin":
        return check_tree(item[1], item[2], tier, twin=True)
    if item[0] == "history":
        return check_history(item[1], tier)
    if item[0] == "cself":
        return check_cself()
    raise ValueError(item)
