"""C06 — printing an expression and parsing the text gives the expression back.

For every skeleton of the printable fragment: s = str(e); e2 = parse(s).
Solver clause: evaluate(e2, env) == evaluate(e, env) for every environment (z3,
per path).  Path assertions: the order-preserving flattening of sums and products
of e2 equals that of e, and str(e2) == s."""
from __future__ import annotations

import pymbolic.primitives as p
from pv import harness as H
from pv import skel
from pv.common import ItemResult, Violation
from pv.engine import sym
from pv.engine.explore import Explorer, HarnessError, Query

BOUNDS = {"quick": {"depth2": "every (parent, slot, child) over the printable fragment + every alphabet constant in every slot",
                    "depth3": "every chain over a reduced alphabet of 11 kinds", "max_paths": 256, "solver_timeout_ms": 10000},
          "thorough": {"depth3": "reduced alphabet of 16 kinds", "max_paths": 1024, "solver_timeout_ms": 30000}}
ASSUMPTIONS = ["the uncached evaluator gives the meaning of both trees (C02)", "floats are exact reals",
               "literals and identifiers come from a fixed alphabet (regex lexer is not symbolic)",
               "slices have no evaluator meaning: structural clauses only"]
RULE = ("one item per skeleton tree; distinct by canonical text; non-trivial = the text was parsed and at least the structural "
        "clauses were evaluated")

PRINTABLE = (skel.ARITH + skel.BITS + skel.LOGIC + skel.CMPS + ["if", "neg"]
             + ["call0", "call1", "call2", "callkw", "callkw0", "sub1", "sub2", "lookup"]
             + ["subslice2", "subslice3", "subslice_lo", "subslice_hi", "subslice_all", "subslice_tup"])
STRUCTS = ["tuple2", "tuple1", "tuple3"]
D3_QUICK = ["sum2", "prod2", "quot", "floordiv", "rem", "pow", "neg", "lshift", "band2", "cmp_lt", "lor2"]
D3_MORE = ["bor2", "bxor2", "bnot", "lnot", "land2", "if", "rshift", "sub1"]
SLOT_CHILDREN = ["sum2", "prod2", "quot", "pow", "neg", "sub1", "lookup", "call1", "if", "lor2", "cmp_lt", "bnot", "lnot"]


ASSOC_LITERAL = (p.Sum, p.Product)
ASSOC_ALL = (p.Sum, p.Product, p.LogicalAnd, p.LogicalOr, p.BitwiseAnd, p.BitwiseOr, p.BitwiseXor)


def flatten_sp(e, assoc=ASSOC_ALL):
    """order-preserving flattening of nested associative n-ary nodes (harness-owned: pymbolic's reorders).
    assoc=ASSOC_LITERAL flattens sums and products only (the literal reading of the property, applied to the
    dedicated 'assoc' family); the bulk families also flatten and/or/&/|/^ chains, which the printer prints
    without inner parentheses and the parser re-associates to the left."""
    if isinstance(e, assoc):
        cls = type(e)
        out = []
        for c in e.children:
            c = flatten_sp(c, assoc)
            if type(c) is cls:
                out.extend(c.children)
            else:
                out.append(c)
        return cls(tuple(out))
    if isinstance(e, tuple):
        return tuple(flatten_sp(c, assoc) for c in e)
    if not isinstance(e, p.Expression):
        return e
    import dataclasses
    vals = []
    for f in dataclasses.fields(e):
        v = getattr(e, f.name)
        if isinstance(v, (p.Expression, tuple)):
            v = flatten_sp(v, assoc)
        elif hasattr(v, "items"):
            from immutabledict import immutabledict
            v = immutabledict({k: flatten_sp(x, assoc) for k, x in v.items()})
        vals.append(v)
    return type(e)(*vals)


def strict_equal(a, b):
    """tree equality that also distinguishes 1 / 1.0 / True"""
    if isinstance(a, p.Expression) or isinstance(b, p.Expression):
        if type(a) is not type(b):
            return False
        import dataclasses
        return all(strict_equal(getattr(a, f.name), getattr(b, f.name)) for f in dataclasses.fields(a))
    if isinstance(a, tuple) or isinstance(b, tuple):
        return isinstance(a, tuple) and isinstance(b, tuple) and len(a) == len(b) and all(
            strict_equal(x, y) for x, y in zip(a, b))
    if hasattr(a, "items") and hasattr(b, "items"):
        return set(a) == set(b) and all(strict_equal(a[k], b[k]) for k in a)
    # numpy scalars count as the Python number kind they print as (int / float / bool / complex)
    import numpy as np
    if isinstance(a, np.generic):
        a = a.item()
    if isinstance(b, np.generic):
        b = b.item()
    return type(a) is type(b) and a == b


def items(tier):
    out, seen = [], set()

    def add(d, mode="full"):
        key = skel.show(d)
        if key not in seen:
            seen.add(key)
            out.append(("skel", d, mode))
    for d in skel.depth1(PRINTABLE + STRUCTS):
        add(d)
    for d in skel.depth2(PRINTABLE + STRUCTS, PRINTABLE):
        add(d)
    for d in skel.with_consts(PRINTABLE + STRUCTS):
        add(d)
    # constants that are numpy scalars (what array code hands to the tree builders)
    import numpy as np
    for d in skel.with_consts(["sum2", "prod2", "quot", "pow", "call1", "sub1", "cmp_lt", "if", "neg", "tuple2"],
                              [np.float64(1.5), np.int64(3), np.float32(0.5), np.int32(-2), np.int64(0)]):
        add(d)
    d3 = D3_QUICK + (D3_MORE if tier == "thorough" else [])
    for d in skel.depth3(d3):
        add(d)
    # children in function / aggregate slots: structural clauses only
    for pk in ["call1", "sub1", "lookup", "callkw0", "subslice2"]:
        for ck in SLOT_CHILDREN:
            nm = skel.Namer()
            k = skel.KINDS[pk]
            ch = [skel.node(ck, nm) if j == 0 else nm.leaf(sj) for j, sj in enumerate(k.slots)]
            add((pk, *ch), "struct")
        for c in [-1, 2.5, 3]:
            if pk == "lookup" and c == 3:
                continue      # '3.fld' is not in the shared syntax (Python rejects it too)
            nm = skel.Namer()
            k = skel.KINDS[pk]
            ch = [("c", c) if j == 0 else nm.leaf(sj) for j, sj in enumerate(k.slots)]
            add((pk, *ch), "struct")
    # hand-picked nestings
    v = lambda n, t="num": ("v", n, t)  # noqa: E731
    for d in [
        ("pow", ("pow", v("x1"), v("x2")), v("x3")), ("pow", v("x1"), ("pow", v("x2"), v("x3"))),
        ("pow", ("neg", v("x1")), ("c", 2)), ("neg", ("pow", v("x1"), ("c", 2))), ("pow", ("c", -2), v("e1", "exp")),
        ("pow", v("x1"), ("c", -1)), ("bnot", ("pow", v("x1"), ("c", 2))), ("pow", ("bnot", v("x1")), ("c", 2)),
        ("cmp_eq", ("band2", v("x1"), v("x2")), v("x3")), ("band2", v("x1"), ("cmp_eq", v("x2"), v("x3"))),
        ("bor2", v("x1"), ("bxor2", v("x2"), v("x3"))), ("bxor2", ("bor2", v("x1"), v("x2")), v("x3")),
        ("bor2", v("x1"), ("bor2", v("x2"), v("x3"))), ("land2", v("b1", "bool"), ("land2", v("b2", "bool"), v("b3", "bool"))),
        ("lor2", ("lor2", v("b1", "bool"), v("b2", "bool")), v("b3", "bool")),
        ("sum2", v("x1"), ("sum2", v("x2"), v("x3"))), ("prod2", ("prod2", v("x1"), v("x2")), v("x3")),
        ("prod2", v("x1"), ("quot", v("x2"), v("x3"))), ("quot", ("prod2", v("x1"), v("x2")), v("x3")),
        ("floordiv", ("prod2", v("x1"), v("x2")), v("x3")), ("prod2", v("x1"), ("rem", v("x2"), v("x3"))),
        ("lshift", ("lshift", v("x1"), v("s2", "shift")), v("s3", "shift")),
        ("lshift", v("x1"), ("rshift", v("x2"), v("s3", "shift"))),
        ("lnot", ("cmp_eq", v("x1"), v("x2"))), ("cmp_eq", ("lnot", v("b1", "bool")), v("x2")),
        ("lnot", ("sum2", v("x1"), v("x2"))), ("sum2", ("lnot", v("b1", "bool")), v("x2")),
        ("if", ("if", v("b1", "bool"), v("b2", "bool"), v("b3", "bool")), v("x4"), v("x5")),
        ("if", v("b1", "bool"), ("if", v("b2", "bool"), v("x3"), v("x4")), v("x5")),
        ("if", v("b1", "bool"), v("x2"), ("if", v("b3", "bool"), v("x4"), v("x5"))),
        ("tuple2", ("if", v("b1", "bool"), v("x2"), v("x3")), v("x4")),
        ("call2", v("f1", "fn"), ("if", v("b1", "bool"), v("x2"), v("x3")), v("x4")),
        ("call1", v("f1", "fn"), ("tuple2", v("x2"), v("x3"))), ("sub1", v("a1", "arr"), ("tuple1", v("x2"))),
        ("tuple2", ("tuple2", v("x1"), v("x2")), v("x3")), ("tuple1", ("tuple1", v("x1"))),
        ("cmp_lt", ("cmp_lt", v("x1"), v("x2")), v("x3")), ("cmp_lt", v("x1"), ("cmp_lt", v("x2"), v("x3"))),
        ("sum2", ("c", -1), ("c", -2)), ("prod2", ("c", -1), ("c", 2.5)), ("quot", ("c", 1), ("c", -2)),
        ("neg", ("neg", v("x1"))), ("sum2", v("x1"), ("neg", v("x2"))), ("rem", ("neg", v("x1")), v("x2")),
    ]:
        add(d)
    # literal reading of the structural clause (flatten sums and products only) on and/or/&/|/^ chains
    for k2, k3 in [("land2", "land3"), ("lor2", "lor3"), ("band2", "band3"), ("bor2", "bor3"), ("bxor2", "bxor3")]:
        t = "bool" if k2.startswith("l") else "num"
        out.append(("skel", (k3, v("x1", t), v("x2", t), v("x3", t)), "literal"))
        out.append(("skel", (k2, v("x1", t), (k2, v("x2", t), v("x3", t))), "literal"))
        out.append(("skel", (k2, (k2, v("x1", t), v("x2", t)), v("x3", t)), "literal"))
    return out


def twins(tier):
    return [("twin", ("floordiv", ("v", "x1", "num"), ("v", "x2", "num")))]


def check_skeleton(desc, mode, tier, twin=False):
    from pymbolic import parse
    from pymbolic.mapper.evaluator import EvaluationMapper
    fam = H.family_for(desc)
    sym.set_family(fam)
    text = skel.show(desc) + (" [literal]" if mode == "literal" else "")
    res = ItemResult(item=text, sample={"skeleton": text})
    expr = skel.build(desc)
    from pymbolic.mapper.stringifier import StringifyMapper
    prt = (lambda e: str(e)) if isinstance(expr, p.Expression) else (lambda e: StringifyMapper()(e))
    s = prt(expr)
    res.sample["printed"] = s
    res.paths = 1

    def viol(kind, detail):
        res.status = "violation"
        res.violations.append(Violation(sig=f"{text} :: {kind}", kind=f"roundtrip-{kind}",
                                        detail=f"{expr!r} prints as {s!r}: {detail}",
                                        replay={"skeleton": text, "expr": repr(expr), "printed": s}))
    try:
        e2 = parse(s)
    except Exception as e:  # noqa: BLE001
        viol("unparsable", f"parse raised {e!r}")
        return res
    # structural clauses
    res.path_assertions += 2
    if not twin:
        assoc = ASSOC_LITERAL if mode == "literal" else ASSOC_ALL
        if not strict_equal(flatten_sp(e2, assoc), flatten_sp(expr, assoc)):
            viol("structure" if mode != "literal" else "structure-literal",
                 f"reparsed tree {e2!r} differs from the original after flattening "
                 + ("sums and products" if mode == "literal" else "associative n-ary nodes"))
        s2 = prt(e2)
        if s2 != s:
            viol("reprint", f"printed form of the reparsed expression is {s2!r}")
    if mode in ("struct", "literal") or "slice" in skel.tags(desc):
        return res
    # value clause, decided by the solver
    env, pre = H.make_env(desc, fam)
    orc_expr = p.FloorDiv(expr.denominator, expr.numerator) if twin else expr

    def harness():
        o = H.outcome(lambda: EvaluationMapper(env)(orc_expr))
        i = H.outcome(lambda: EvaluationMapper(env)(e2))
        return o, i

    ex = Explorer(pre=pre, max_paths=BOUNDS[tier]["max_paths"], timeout_ms=BOUNDS[tier]["solver_timeout_ms"])
    q = Query(timeout_ms=BOUNDS[tier]["solver_timeout_ms"])
    truthy = False
    cmp_ = H.Cmp(q, fam, truthy=truthy)
    try:
        for path in ex.run(harness):
            if path.exc is not None:
                if isinstance(path.exc, sym.Unsupported):
                    res.note = f"value clause outside proxy model: {path.exc}"
                    break
                raise HarnessError(f"harness raised {path.exc!r} on {text}")
            o, i = path.result
            if o[0] == "exc" and not isinstance(o[1], (ZeroDivisionError, ValueError)):
                continue
            verdict, model, why = cmp_(path.pc, i, o)
            res.path_assertions += 1
            if verdict in ("ok", "skip"):
                continue
            if verdict == "unknown":
                res.status = "inconclusive"
                res.note = why
                continue
            if model is None:
                model = H.path_model([], path.pc)
            tg = skel.tags(desc)
            cenv = H.concretise_env(env, model, exact=(fam != "bv" and ("div" in tg or "pow" in tg)))
            differs, txt = H.replay_differs(lambda: EvaluationMapper(cenv)(e2), lambda: EvaluationMapper(cenv)(orc_expr))
            if not differs:
                if "pow(" in why:
                    res.status = "inconclusive"
                    res.note = "counterexample depends on uninterpreted pow()"
                    break
                raise HarnessError(f"counterexample did not reproduce: {text} printed {s!r} env {H.env_text(cenv)}: {why}")
            viol("value", f"reparsed tree {e2!r} evaluates differently with {H.env_text(cenv)}: {txt}")
            break
    except sym.Unsupported as e:
        res.note = f"value clause outside proxy model: {e}"
    if not ex.complete and res.status == "ok":
        res.status = "inconclusive"
        res.note = "; ".join(ex.inconclusive_reasons[:2])
    return H.finish(res, [ex.stats], q)


def check_item(item, tier):
    if item[0] == "skel":
        return check_skeleton(item[1], item[2], tier)
    if item[0] == "twin":
        return check_skeleton(item[1], "full", tier, twin=True)
    raise ValueError(item)
