"""C05 — memoization and mapper optimization are observationally transparent.

Call histories on ONE memoizing mapper instance (which expression, which extra
arguments: symbolic selectors enumerated by the solver, coverage-checked) are
compared, after every call, with the non-memoizing counterpart applied afresh.
For the evaluation mappers the environment is symbolic and z3 proves equality
for every environment.  The optimizer's five switches are symbolic booleans (32
combinations, coverage-checked)."""
from __future__ import annotations

import itertools

import z3

import pymbolic.primitives as p
from pv import harness as H
from pv.common import ItemResult, Violation
from pv.engine import explore, sym
from pv.engine.explore import Explorer, HarnessError, Query
from pv.props.c06 import strict_equal

BOUNDS = {"quick": {"history_length": 2, "pool": 16, "optimizer_switches": 32, "dependency_flag_settings": 72},
          "thorough": {"history_length": 3, "pool": 16, "optimizer_switches": 32}}
ASSUMPTIONS = ["the non-memoizing mapper applied afresh is the oracle", "integer environments for the evaluation pair"]
RULE = "one item per (mapper pair) x history family; histories enumerated by solver-driven selectors with a coverage query"


def pool():
    x, y, z = p.Variable("x"), p.Variable("y"), p.Variable("z")
    f, a = p.Variable("f"), p.Variable("a")
    s = p.Sum((x, y))
    s2 = p.Sum((p.Variable("x"), p.Variable("y")))      # equal but not identical
    return [
        4, 4.0, True, x,
        p.Product((s, s)), p.Product((s, s2)),
        p.Sum((p.Product((s, s2)), p.Power(s, 2))),
        p.Sum((4, 4.0, True, 1, 1.0, x)),
        p.If(p.Comparison(x, "<", y), s, p.Product((s2, 2))),
        p.Call(f, (s, s2, 1, 1.0)),
        p.Subscript(a, s),
        p.Sum((p.CommonSubexpression(s), p.CommonSubexpression(s2), p.CommonSubexpression(s, "pfx"))),
        p.Product((p.CommonSubexpression(p.Product((s, z))), s, p.CommonSubexpression(p.Product((s2, z))))),
        p.Min((s, x, p.Max((s2, 1, True)))),
        p.Quotient(p.Sum((x, 1)), p.Sum((z, 1.0))),
    ]


def consttype_pool():
    """equal trees that differ only in the type of a constant (4 == 4.0 == ... as values, so the trees are ==)"""
    x = p.Variable("x")
    return [p.Sum((p.Product((4, x)), p.Product((4.0, x)))), p.Quotient(p.Sum((x, 1)), p.Sum((x, 1.0))),
            p.Sum((p.Product((True, x)), p.Product((1, x))))]


# extra arguments of a call: positional tuples and keyword dicts
ARGSETS = [("_a",), ("_b",), ("_a",), {"suffix": "_a"}, {"suffix": "_b"}]


def _call(m, e, a):
    return m(e, **a) if isinstance(a, dict) else m(e, *a)


def strict_result_equal(a, b):
    if isinstance(a, set) and isinstance(b, set):
        return a == b and {type(v) for v in a} == {type(v) for v in b}
    if isinstance(a, (p.Expression, tuple)) or isinstance(b, (p.Expression, tuple)):
        return strict_equal(a, b)
    return type(a) is type(b) and a == b


# {{{ mapper pairs (cached, plain, uses_args)

def _pairs():
    from pymbolic.mapper import (CachedCollector, CachedCombineMapper, CachedIdentityMapper, CachedWalkMapper,
                                 Collector, CombineMapper, CSECachingMapperMixin, IdentityMapper, WalkMapper)
    from pymbolic.mapper.substitutor import CachedSubstitutionMapper, SubstitutionMapper

    class RenC(CachedIdentityMapper):
        def map_variable(self, expr, suffix="", *a, **kw): return p.Variable(expr.name + suffix)
        def map_constant(self, expr, *a, **kw): return expr + 1

    class RenP(IdentityMapper):
        def map_variable(self, expr, suffix="", *a, **kw): return p.Variable(expr.name + suffix)
        def map_constant(self, expr, *a, **kw): return expr + 1

    def _w(v):
        return 100 if isinstance(v, bool) else (0.5 if isinstance(v, float) else 1)

    class SizeC(CachedCombineMapper):
        def combine(self, values): return sum(values)
        def map_variable(self, expr, suffix="", *a, **kw): return len(expr.name + suffix)
        def map_constant(self, expr, *a, **kw): return _w(expr)
        map_nan = map_constant

    class SizeP(CombineMapper):
        def combine(self, values): return sum(values)
        def map_variable(self, expr, suffix="", *a, **kw): return len(expr.name + suffix)
        def map_constant(self, expr, *a, **kw): return _w(expr)
        map_nan = map_constant

    class ColC(CachedCollector):
        def map_variable(self, expr, suffix="", *a, **kw): return {expr.name + suffix}
        def map_constant(self, expr, *a, **kw): return {(type(expr).__name__, repr(expr))}

    class ColP(Collector):
        def map_variable(self, expr, suffix="", *a, **kw): return {expr.name + suffix}
        def map_constant(self, expr, *a, **kw): return {(type(expr).__name__, repr(expr))}

    class WalkC(CachedWalkMapper):
        def __init__(self):
            super().__init__()
            self.seen = set()
            self.keys = []

        def visit(self, expr, *a, **kw):
            self.seen.add((type(expr).__name__, repr(expr), a, tuple(sorted(kw.items()))))
            self.keys.append((type(expr), repr(expr), a, tuple(sorted(kw.items()))))
            return True

        def post_visit(self, expr, *a, **kw): pass

    class WalkP(WalkMapper):
        def __init__(self):
            self.seen = set()

        def visit(self, expr, *a, **kw):
            self.seen.add((type(expr).__name__, repr(expr), a, tuple(sorted(kw.items()))))
            return True

        def post_visit(self, expr, *a, **kw): pass

    def subst_func(e):
        if isinstance(e, p.Variable) and e.name == "x":
            return p.Sum((p.Variable("y"), 4))
        return None

    class CseArgC(CSECachingMapperMixin, IdentityMapper):
        def map_variable(self, expr, suffix="", *a): return p.Variable(expr.name + suffix)

        def map_common_subexpression_uncached(self, expr, *a):
            return p.CommonSubexpression(self.rec(expr.child, *a), expr.prefix, expr.scope)

    class CseArgP(IdentityMapper):
        def map_variable(self, expr, suffix="", *a): return p.Variable(expr.name + suffix)

    return {
        "identity": (RenC, RenP, True, _call),
        "combine": (SizeC, SizeP, True, _call),
        "collector": (ColC, ColP, True, _call),
        "walk": (WalkC, WalkP, True, lambda m, e, a: (_call(m, e, a), frozenset(m.seen))[1]),
        "substitution": (lambda: CachedSubstitutionMapper(subst_func), lambda: SubstitutionMapper(subst_func), False,
                         lambda m, e, a: m(e)),
        "cse_mixin_args": (CseArgC, CseArgP, True, lambda m, e, a: m(e, *a)),
    }

# }}}


def items(tier):
    out = [("pair", k) for k in ["identity", "combine", "collector", "walk", "substitution", "cse_mixin_args"]]
    out += [("counts", k) for k in ["identity", "combine", "collector", "walk"]]
    out += [("evalpair", i) for i in range(4)]
    out += [("dependency", i) for i in range(6)]
    out += [("consttype", k) for k in ["identity", "combine", "collector", "substitution"]] + [("unhashable",)]
    out += [("nodecount",), ("optimizer", "OptRenamer"), ("optimizer", "OptArgRenamer"), ("optimizer", "OptCounter"),
            ("optimizer", "OptNames"), ("optimizer", "OptAliasMark"), ("optimizer_repeat",)]
    return out


def twins(tier):
    return [("twin_pair",)]


def _viol(res, sig, kind, detail):
    res.status = "violation"
    res.violations.append(Violation(sig=sig, kind=kind, detail=detail, replay={"detail": detail}))


def check_pair(name, tier, twin=False):
    pairs = _pairs()
    mkc, mkp, uses_args, run = pairs[name]
    res = ItemResult(item=f"pair {name}", sample={"pair": name, "history_length": BOUNDS[tier]["history_length"]})
    P = pool()
    L = BOUNDS[tier]["history_length"]
    esel = [z3.Int(f"e{i}") for i in range(L)]
    asel = [z3.Int(f"a{i}") for i in range(L)]
    pre = [z3.And(s >= 0, s < len(P)) for s in esel]
    # histories of length 3 (thorough) use three argument sets (two positional, one keyword) to keep (|P|*sets)^L in reach
    argsets = ARGSETS if L <= 2 else [ARGSETS[0], ARGSETS[1], ARGSETS[4]]
    nargsets = (3 if name == "cse_mixin_args" else len(argsets)) if uses_args else 1
    if name == "cse_mixin_args":
        argsets = ARGSETS[:3]
    pre += [z3.And(s >= 0, s < nargsets) for s in asel]

    def harness():
        hist = [(explore.realise(esel[i]), explore.realise(asel[i])) for i in range(L)]
        m = mkc()
        bad = []
        for step, (ei, ai) in enumerate(hist):
            args = argsets[ai] if uses_args else ()
            if name == "walk":
                m.seen = set()
            try:
                got = ("val", run(m, P[ei], args))
            except Exception as e:  # noqa: BLE001
                got = ("exc", type(e).__name__)
            pm = mkp()
            if twin and step == 1:
                args = ("_twin",)
            if isinstance(args, dict) and name == "walk":
                args = dict(args)
            try:
                exp = ("val", run(pm, P[ei], args))
            except Exception as e:  # noqa: BLE001
                exp = ("exc", type(e).__name__)
            same = got[0] == exp[0] and (got[1] == exp[1] if got[0] == "exc" else (
                got[1] == exp[1] if name == "walk" and step == 0 else (
                    True if name == "walk" else strict_result_equal(got[1], exp[1]))))
            if name == "walk" and step > 0 and got[0] == "val":
                # a reused cached walker only visits what it has not seen before: never more than the plain one
                same = got[1] <= exp[1]
            if not same:
                bad.append((step, hist, got, exp))
                break
        return hist, bad

    ex = Explorer(pre=pre, max_paths=(len(P) * len(argsets)) ** L + 10, timeout_ms=10000)
    paths = list(ex.run(harness))
    for path in paths:
        res.path_assertions += 1
        if path.exc is not None:
            raise HarnessError(f"pair {name}: {path.exc!r}")
        hist, bad = path.result
        for step, h, got, exp in bad[:1]:
            calls = [(repr(P[e])[:60], argsets[a] if uses_args else ()) for e, a in h[:step + 1]]
            _viol(res, f"pair {name} history={h[:step + 1]}", f"memo-{name}",
                  f"after the calls {calls} on one memoizing instance the last result is {got[1]!r}; "
                  f"the non-memoizing mapper applied afresh gives {exp[1]!r}")
    if not ex.coverage_unsat(paths):
        res.status = "inconclusive"
        res.note = "history coverage not unsat"
    return H.finish(res, [ex.stats], Query())


def check_unhashable():
    """expressions that cannot be hashed (a list / object array inside a node, or as the whole input): the memoizing
    mapper must fall back to plain mapping and give the plain mapper's result"""
    import numpy as np
    res = ItemResult(item="unhashable inputs", sample={"family": "nodes holding lists / object arrays"})
    x, y, f = p.Variable("x"), p.Variable("y"), p.Variable("f")
    arr = np.empty(2, dtype=object)
    arr[0], arr[1] = p.Sum((x, 1)), y
    exprs = [("Call(f, [x, y])", p.Call(f, [x, p.Sum((y, 1))])), ("Sum([x, y])", p.Sum([x, y])), ("[x + 1, y]", [p.Sum((x, 1)), y]),
             ("Product((2, array))", p.Product((2, arr))), ("array", arr), ("Call(f, ([x, y],))", p.Call(f, ([x, y],))),
             ("[[x], y]", [[x], y])]
    pairs = _pairs()

    def norm(v):
        if isinstance(v, np.ndarray):
            return ("array", tuple(norm(c) for c in v.flat))
        if isinstance(v, (list, tuple)):
            return (type(v).__name__, tuple(norm(c) for c in v))
        if isinstance(v, p.Expression):
            import dataclasses
            return (type(v).__name__, tuple(norm(getattr(v, fl.name)) for fl in dataclasses.fields(v)))
        if isinstance(v, (set, frozenset)):
            return ("set", tuple(sorted(map(repr, v))))
        return (type(v).__name__, repr(v))
    for pname in ("identity", "combine", "collector", "substitution"):
        mkc, mkp, uses_args, run = pairs[pname]
        for label, e in exprs:
            res.path_assertions += 1
            args = ("_a",) if uses_args else ()
            got = _safe2(lambda: norm(run(mkc(), e, args)))
            exp = _safe2(lambda: norm(run(mkp(), e, args)))
            if got != exp:
                _viol(res, f"unhashable {pname} {label}", f"memo-unhashable-{pname}",
                      f"{pname} mapper on {label}: memoizing class gives {got!r:.200}, plain class gives {exp!r:.200}")
    res.paths = 1
    return res


def _safe2(fn):
    try:
        return ("val", fn())
    except Exception as e:  # noqa: BLE001
        return ("exc", type(e).__name__)


def check_consttype(name):
    """results must not be shared between constants of different type - also when the constants sit inside
    otherwise equal subtrees"""
    mkc, mkp, uses_args, run = _pairs()[name]
    res = ItemResult(item=f"consttype {name}", sample={"pair": name, "family": "equal trees differing in constant type"})
    for e in consttype_pool():
        res.path_assertions += 1
        args = ARGSETS[0] if uses_args else ()
        got, exp = run(mkc(), e, args), run(mkp(), e, args)
        if not strict_result_equal(got, exp):
            _viol(res, f"consttype {name} {H.stable_text(e)}", "memo-constant-type-inside-equal-trees",
                  f"{e!r}: memoizing mapper gives {got!r}, non-memoizing {exp!r}")
    res.paths = 1
    return res


def check_counts(name, tier):
    """each distinct (type, expression, arguments) key is computed at most once per instance"""
    pairs = _pairs()
    mkc, _, uses_args, run = pairs[name]
    res = ItemResult(item=f"counts {name}", sample={"pair": name})
    P = pool()
    import collections
    for seq in itertools.product(range(len(P)), repeat=2):
        for aseq in ([(0, 0), (0, 1), (1, 0)] if uses_args else [(0, 0)]):
            res.path_assertions += 1
            base = mkc
            calls = collections.Counter()
            m = base()
            cls = type(m)
            wrapped = {}
            for attr in dir(cls):
                if attr.startswith("map_") and callable(getattr(cls, attr)):
                    orig = getattr(m, attr)

                    def mk(orig=orig, attr=attr):
                        def w(expr, *a, **kw):
                            try:
                                calls[(attr, type(expr), expr, a)] += 1
                            except TypeError:
                                pass
                            return orig(expr, *a, **kw)
                        return w
                    wrapped[attr] = mk()
            for k, v in wrapped.items():
                setattr(m, k, v)
            try:
                for ei, ai in zip(seq, aseq):
                    run(m, P[ei], ARGSETS[ai] if uses_args else ())
            except Exception:  # noqa: BLE001
                continue
            over = [(k, c) for k, c in calls.items() if c > 1]
            if over:
                k, c = over[0]
                _viol(res, f"counts {name} seq={seq} args={aseq}", f"memo-recomputed-{name}",
                      f"calls {[repr(P[e])[:50] for e in seq]} args {aseq}: key ({k[0]}, {k[1].__name__}, {k[2]!r}, {k[3]}) "
                      f"was computed {c} times on one instance")
                return res
    res.paths = 1
    return res


def check_evalpair(i, tier):
    """CachedEvaluationMapper reused across a history vs fresh EvaluationMapper, symbolic environment"""
    from pymbolic.mapper.evaluator import CachedEvaluationMapper, EvaluationMapper
    sym.set_family("int")
    P = [e for e in pool() if not isinstance(e, (int, float, bool))]
    res = ItemResult(item=f"evalpair chunk {i}", sample={"pair": "CachedEvaluationMapper/EvaluationMapper"})
    env, pre = {}, []
    for n in ("x", "y", "z"):
        env[n], _ = sym.var(n, "int")
    env["f"] = sym.UF("f", "int")
    env["a"] = sym.UFArray("a", "int")
    q = Query()
    stats = []
    L = BOUNDS[tier]["history_length"]
    hists = list(itertools.product(range(len(P)), repeat=L))[i::4]
    for hist in hists:
        def harness(hist=hist):
            m = CachedEvaluationMapper(env)
            outs = []
            for ei in hist:
                got = H.outcome(lambda: m(P[ei]))
                exp = H.outcome(lambda: EvaluationMapper(env)(P[ei]))
                outs.append((got, exp))
            return outs
        ex = Explorer(pre=pre, max_paths=128, timeout_ms=10000)
        cmp_ = H.Cmp(q, "int")
        for path in ex.run(harness):
            if path.exc is not None:
                raise HarnessError(f"evalpair {hist}: {path.exc!r}")
            for step, (got, exp) in enumerate(path.result):
                res.path_assertions += 1
                verdict, model, why = cmp_(path.pc, got, exp)
                if verdict in ("ok", "skip"):
                    continue
                if verdict == "unknown":
                    res.status = "inconclusive"
                    continue
                if model is None:
                    model = H.path_model([], path.pc)
                cenv = H.concretise_env(env, model, exact=True)
                m2 = CachedEvaluationMapper(cenv)
                g2 = None
                for ei in hist[:step + 1]:
                    g2 = H.outcome(lambda: m2(P[ei]))
                e2 = H.outcome(lambda: EvaluationMapper(cenv)(P[hist[step]]))
                if g2[0] == e2[0] and (g2[0] == "exc" or H.concrete_equal(g2[1], e2[1])):
                    raise HarnessError(f"evalpair counterexample did not reproduce {hist} {H.env_text(cenv)}: {why}")
                _viol(res, f"evalpair history={hist[:step + 1]}", "memo-evaluation",
                      f"history {[repr(P[e])[:50] for e in hist[:step + 1]]} with {H.env_text(cenv)}: cached "
                      f"{H.show_outcome(g2)}, fresh uncached {H.show_outcome(e2)}")
                break
        stats.append(ex.stats)
    return H.finish(res, stats, q)


def check_dependency(i, tier):
    from pymbolic.mapper.dependency import CachedDependencyMapper, DependencyMapper
    res = ItemResult(item=f"dependency flags chunk {i}", sample={"pair": "CachedDependencyMapper/DependencyMapper"})
    P = [e for e in pool()]
    flags = list(itertools.product([True, False], [True, False], [True, False, "descend_args"], [True, False],
                                   [None, True, False]))[i::6]
    for fl in flags:
        kw = dict(zip(["include_subscripts", "include_lookups", "include_calls", "include_cses", "composite_leaves"], fl))
        cm = CachedDependencyMapper(**kw)
        for e1, e2 in itertools.product(P, P[:6]):
            res.path_assertions += 1
            for e in (e1, e2):
                got = cm(e)
                exp = DependencyMapper(**kw)(e)
                if got != exp:
                    _viol(res, f"dependency flags={fl} expr={e!r}", "memo-dependency",
                          f"flags {kw}: cached {got!r} vs fresh uncached {exp!r} for {e!r}")
                    return res
    res.paths = 1
    return res


def check_nodecount():
    from pymbolic.mapper.analysis import NodeCountMapper, get_num_nodes
    from pv.props.c04 import children_of
    res = ItemResult(item="nodecount", sample={"mapper": "NodeCountMapper"})
    for e in pool():
        res.path_assertions += 1
        seen = []

        def walk(n):
            key = (type(n), n)
            if not any(k[0] is key[0] and k[1] == key[1] for k in seen):
                seen.append(key)
                for c in children_of(n):
                    walk(c)
        walk(e)
        got = get_num_nodes(e)
        if got != len(seen):
            _viol(res, f"nodecount {e!r}", "memo-nodecount", f"get_num_nodes({e!r}) = {got}, distinct subexpressions: {len(seen)}")
    res.paths = 1
    return res


# {{{ optimizer

SWITCHES = ["drop_args", "drop_kwargs", "inline_rec", "inline_cache", "inline_get_cache_key"]


def check_optimizer(clsname, tier, repeat=False):
    from pymbolic.mapper.optimize import optimize_mapper
    from pv.props import c05_mappers as cm
    res = ItemResult(item=f"optimizer {clsname}", sample={"class": clsname, "switch_combinations": 32})
    P = pool()
    bits = [z3.Bool(s) for s in SWITCHES]
    plain_of = {"OptRenamer": cm.PlainRenamer, "OptArgRenamer": cm.PlainArgRenamer, "OptNames": cm.PlainNames,
                "OptAliasMark": cm.PlainAliasMark}
    if clsname == "OptAliasMark":
        # node types handled through base-class ALIASES of the overridden methods (map_floor_div = map_quotient, ...)
        x_, y_ = p.Variable("x"), p.Variable("y")
        P = [p.FloorDiv(x_, y_), p.Remainder(x_, y_), p.Quotient(x_, y_), p.Product((x_, y_)), p.Sum((x_, y_)),
             p.Product((p.FloorDiv(x_, 2), p.Quotient(y_, 3))), p.BitwiseOr((x_, y_)), p.LogicalAnd((x_, y_)), p.Min((x_, y_))]

    def harness():
        sw = {s: bool(sym.SymBool(b)) for s, b in zip(SWITCHES, bits)}
        orig = getattr(cm, clsname)
        try:
            opt = optimize_mapper(**sw)(orig)
        except Exception as e:  # noqa: BLE001
            return sw, [("optimize_mapper raised", repr(e))]
        bad = []
        uses_args = clsname == "OptArgRenamer"
        if uses_args and sw["drop_args"]:
            return sw, bad       # a mapper that needs its extra argument cannot have it dropped
        m_opt, m_orig = opt(), orig()
        hist = [(e, ("_a",) if uses_args else ()) for e in P] + ([(e, ("_b",)) for e in P[3:9]] if uses_args else [])
        for e, args in hist:
            try:
                if clsname == "OptCounter":
                    m_opt(e)
                    m_orig(e)
                    g, x = (m_opt.count, m_opt.calls), (m_orig.count, m_orig.calls)
                else:
                    g = m_opt(e, *args)
                    x = plain_of[clsname]()(e, *args)
            except Exception as ex:  # noqa: BLE001
                bad.append((repr(e)[:60], "raised " + repr(ex)[:100], ""))
                break
            if not strict_result_equal(g, x):
                bad.append((repr(e)[:60], repr(g)[:120], repr(x)[:120]))
                break
        return sw, bad

    ex = Explorer(pre=[], max_paths=40, timeout_ms=10000)
    paths = list(ex.run(harness))
    for path in paths:
        res.path_assertions += 1
        if path.exc is not None:
            raise HarnessError(f"optimizer {clsname}: {path.exc!r}")
        sw, bad = path.result
        on = [k for k, v in sw.items() if v]
        for b in bad[:1]:
            _viol(res, f"optimizer {clsname} switches={on}", f"optimizer-{clsname}",
                  f"optimize_mapper({', '.join(on)}) on {clsname}: on {b[0]} optimized gives {b[1]}, reference {b[2]}")
    if not ex.coverage_unsat(paths):
        res.status = "inconclusive"
        res.note = "switch coverage not unsat"
    return H.finish(res, [ex.stats], Query())


def check_optimizer_repeat():
    """optimizing with one option set must not influence a later optimization with another one"""
    from pymbolic.mapper.optimize import optimize_mapper
    from pv.props import c05_mappers as cm
    import io
    res = ItemResult(item="optimizer repeat", sample={"family": "two optimize_mapper invocations in one process"})
    combos = [dict(inline_rec=True, inline_cache=True), dict(inline_rec=True), dict(drop_args=True, drop_kwargs=True), dict()]
    for c1, c2 in itertools.permutations(combos, 2):
        res.path_assertions += 1
        src = {}
        for label, first in (("alone", None), ("after", c1)):
            from pymbolic.mapper import optimize as om
            om._get_ast_for_file.cache_clear()
            if first is not None:
                optimize_mapper(**first)(cm.OptRenamer)
            buf = io.StringIO()
            optimize_mapper(print_modified_code_file=buf, **c2)(cm.OptRenamer)
            src[label] = buf.getvalue()
        if src["alone"] != src["after"]:
            _viol(res, f"optimizer repeat first={sorted(c1)} second={sorted(c2)}", "optimizer-state-leak",
                  f"optimize_mapper({c2}) generates different code for OptRenamer after an earlier "
                  f"optimize_mapper({c1}) in the same process")
    from pymbolic.mapper import optimize as om
    om._get_ast_for_file.cache_clear()
    res.paths = 1
    return res

# }}}


def check_item(item, tier):
    k = item[0]
    if k == "pair":
        return check_pair(item[1], tier)
    if k == "twin_pair":
        return check_pair("identity", tier, twin=True)
    if k == "unhashable":
        return check_unhashable()
    if k == "consttype":
        return check_consttype(item[1])
    if k == "counts":
        return check_counts(item[1], tier)
    if k == "evalpair":
        return check_evalpair(item[1], tier)
    if k == "dependency":
        return check_dependency(item[1], tier)
    if k == "nodecount":
        return check_nodecount()
    if k == "optimizer":
        return check_optimizer(item[1], tier)
    if k == "optimizer_repeat":
        return check_optimizer_repeat()
    raise ValueError(item)
