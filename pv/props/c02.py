"""C02 — evaluation gives every node type its standard meaning.

For every skeleton (bounded-exhaustive) the real evaluators run on z3 proxies;
the oracle `refsem.den` runs on the same proxies; z3 decides, per path, that
`pc => impl == oracle` for every environment."""
from __future__ import annotations

from fractions import Fraction

from pv import harness as H
from pv import refsem, skel
from pv.common import ItemResult, Violation
from pv.engine import sym
from pv.engine.explore import Explorer, HarnessError, Query

BOUNDS = {
    "quick": {"tree_depth": 2, "nary_width": "2-3", "bv_num_range": H.NUM_RANGE["bv"],
              "shift_range": H.SHIFT_RANGE, "exp_range_int": H.EXP_RANGE["int"],
              "int_family": "unbounded z3 Int", "max_paths_per_skeleton": 256, "solver_timeout_ms": 10000},
    "thorough": {"tree_depth": 3, "depth3_alphabet": "reduced (12 kinds)", "nary_width": "2-3",
                 "bv_num_range": H.NUM_RANGE["bv"], "max_paths_per_skeleton": 1024,
                 "solver_timeout_ms": 60000},
}
ASSUMPTIONS = [
    "floats are modelled as exact reals; int/int true division is exact",
    "shift amounts above 12 are excluded by assumption (recorded per path)",
    "user callables/arrays/records in the environment are uninterpreted functions of their arguments",
    "z3 4.x/5.x decides the queries; unknown is reported as inconclusive",
]
RULE = ("items = every (parent kind, child slot, child kind) skeleton of depth<=2 over all node kinds the "
        "evaluator handles, parents with each alphabet constant in each slot, trap/short-circuit and "
        "CSE-sharing skeletons, rational-environment family; distinct by canonical text; non-trivial = at "
        "least one path reached the impl-vs-oracle comparison")

D3 = ["sum2", "prod2", "quot", "floordiv", "rem", "pow", "if", "lor2", "cmp_lt", "min2", "call1", "cse"]
D3_BV = ["sum2", "prod2", "lshift", "rshift", "bor2", "bxor2", "band2", "bnot", "floordiv", "rem"]

UNB = ("v", "UNBOUND", "unbound")


def _specials():
    v = lambda n, t="num": ("v", n, t)  # noqa: E731
    out = [
        ("if", v("b1", "bool"), v("x1"), UNB),
        ("if", v("b1", "bool"), UNB, v("x1")),
        ("if", v("b1", "bool"), v("x1"), ("quot", ("c", 1), ("c", 0))),
        ("if", ("cmp_lt", v("x1"), v("x2")), ("quot", v("x3"), v("x1")), ("floordiv", v("x3"), v("x2"))),
        ("lor2", v("b1", "bool"), UNB), ("land2", v("b1", "bool"), UNB),
        ("lor3", v("b1", "bool"), v("b2", "bool"), UNB),
        ("land3", v("b1", "bool"), v("b2", "bool"), UNB),
        ("lor2", v("x1"), v("x2")), ("land2", v("x1"), v("x2")), ("lnot", v("x1")),
        ("lor2", v("x1"), ("quot", ("c", 1), v("x1"))),
        ("sum2", UNB, v("x1")), ("prod2", v("x1"), UNB), ("call1", v("f1", "fn"), UNB),
        ("sub1", v("a1", "arr"), UNB), ("callkw0", v("f1", "fn"), UNB),
        # the missing name is the function / aggregate / record itself
        ("call1", UNB, v("x1")), ("call0", UNB), ("call2", UNB, v("x1"), v("x2")), ("callkw", UNB, v("x1"), v("x2"), v("x3")),
        ("callkw0", UNB, v("x1")), ("sub1", UNB, v("x1")), ("sub2", UNB, v("x1"), v("x2")), ("lookup", UNB),
        ("sum2", v("x1"), ("call1", UNB, v("x1"))),
        # conditions that are numbers, not booleans: only the selected branch may be evaluated
        ("if", v("x1"), ("quot", ("c", 1), v("x1")), ("c", 0)), ("if", v("x1"), ("c", 7), UNB), ("if", v("x1"), UNB, ("c", 7)),
        ("if", ("sum2", v("x1"), v("x2")), ("floordiv", v("x3"), ("sum2", v("x1"), v("x2"))), v("x3")),
        ("if", ("c", 0), UNB, v("x1")), ("if", ("c", 2), v("x1"), UNB), ("if", ("c", 0.0), ("quot", v("x1"), ("c", 0)), v("x1")),
        # n-ary nodes with a single operand
        ("min1", v("x1")), ("max1", v("x1")), ("sum2", ("min1", ("sum2", v("x1"), v("x2"))), ("max1", v("x3"))), ("min2", ("max1", v("x1")), v("x2")),
        # wrappers of every scope (evaluated twice in different environments, see _warm)
        ("cse_glob", ("sum2", v("x1"), v("x2"))), ("sum2", ("cse_glob", ("prod2", v("x1"), v("x2"))), ("cse_glob", ("prod2", v("x1"), v("x2")))),
        ("prod2", ("cse_glob", ("call1", v("f1", "fn"), v("x1"))), v("x2")), ("sum2", ("cse_pfx", ("sum2", v("x1"), ("c", 1))), ("cse_glob", v("x1"))),
        # one-element tuple index: a[(i,)] is not a[i]
        ("sub1t", v("a1", "arr"), v("x1")), ("sum2", ("sub1t", v("a1", "arr"), v("x1")), ("sub1", v("a1", "arr"), v("x1"))),
        ("sub1t", v("a1", "arr"), ("sum2", v("x1"), v("x2"))),
        ("sum2", v("x1"), v("x1")), ("prod3", v("x1"), v("x2"), v("x1")),
        ("sum2", ("c", -1), ("prod2", ("c", -2), v("x1"))),
        ("sum2", ("prod2", ("c", -1), v("x1")), ("prod2", ("c", -2), v("x2"))),
        ("sum3", ("prod2", ("c", 0), v("x1")), ("prod2", ("c", 2), v("x2")), ("c", 1)),
        ("sum2", ("prod2", ("c", 1), v("x1")), ("prod2", ("c", 1.0), v("x2"))),
        ("sum2", ("prod2", ("c", 1), v("x1")), ("prod2", ("c", True), v("x2"))),
        ("tuple2", ("prod2", ("c", 4), v("x1")), ("prod2", ("c", 4.0), v("x1"))),
        ("sum2", ("cse", ("call1", v("f1", "fn"), v("x1"))), ("cse", ("call1", v("f1", "fn"), v("x1")))),
        ("prod2", ("cse", ("sum2", v("x1"), v("x2"))), ("cse", ("sum2", v("x1"), v("x2")))),
        ("cse", ("cse", ("sum2", v("x1"), v("x2")))),
        ("sub1", v("a1", "arr"), ("tuple2", v("x1"), v("x2"))),
        ("min3", v("x1"), v("x1"), v("x2")),
        ("cmp_eq", ("tuple2", v("x1"), v("x2")), ("tuple2", v("x2"), v("x1"))),
        ("pow", ("c", 0), v("e1", "exp")), ("pow", v("x1"), ("c", 0)), ("pow", ("c", 2), v("e1", "exp")),
        ("pow", ("c", 0), ("c", 0)),
        ("rem", v("x1"), ("c", -3)), ("floordiv", v("x1"), ("c", -3)), ("rem", ("c", -7), v("x1")),
        ("floordiv", ("c", -7), v("x1")),
        ("lshift", ("c", 1), v("s1", "shift")), ("rshift", ("c", -5), v("s1", "shift")),
        ("rshift", v("x1"), ("c", 1)), ("lshift", v("x1"), ("c", -1)),
    ]
    return out


def _poly_items():
    return [("poly", i) for i in range(6)]


def items(tier):
    out = []
    seen = set()

    def add(d, fam=None):
        f = fam or H.family_for(d)
        key = (skel.show(d), f)
        if key not in seen:
            seen.add(key)
            out.append(("skel", d, f))
    for d in skel.depth1():
        add(d)
    for d in skel.depth2():
        add(d)
    for d in skel.with_consts():
        add(d)
    for d in _specials():
        add(d)
    # rational environments (SymFrac) for the arithmetic / comparison / misc kinds
    real_kinds = skel.ARITH + skel.CMPS + skel.MISC + ["cse"]
    for d in skel.depth1(real_kinds):
        add(d, "real")
    for d in skel.depth2(real_kinds, real_kinds):
        if "pow" in skel.kinds_in(d)[1:]:
            continue
        add(d, "real")
    if tier == "thorough":
        for d in skel.depth3(D3):
            add(d)
        for d in skel.depth3(D3_BV):
            add(d)
    out += _poly_items()
    return out


def twins(tier):
    v = lambda n, t="num": ("v", n, t)  # noqa: E731
    return [("twin", ("floordiv", v("x1"), v("x2")), "int", "swap"),
            ("twin", ("bor2", v("x1"), ("bxor2", v("x2"), v("x3"))), "bv", "regroup"),
            ("twin", ("if", v("b1", "bool"), v("x1"), v("x2")), "int", "ifswap")]


def _twin_oracle(kind, expr, env):
    import pymbolic.primitives as p
    if kind == "swap":
        return refsem.den(p.FloorDiv(expr.denominator, expr.numerator), env)
    if kind == "regroup":
        a = expr.children[0]
        b, c = expr.children[1].children
        return refsem.den(p.BitwiseXor((p.BitwiseOr((a, b)), c)), env)
    if kind == "ifswap":
        return refsem.den(p.If(expr.condition, expr.else_, expr.then), env)
    raise ValueError(kind)


def _evaluators():
    from pymbolic import evaluate, evaluate_kw
    from pymbolic.mapper.evaluator import CachedEvaluationMapper, EvaluationMapper
    return [
        ("EvaluationMapper", lambda e, env: EvaluationMapper(env)(e)),
        ("CachedEvaluationMapper", lambda e, env: CachedEvaluationMapper(env)(e)),
        ("evaluate", lambda e, env: evaluate(e, env)),
        ("evaluate_kw", lambda e, env: evaluate_kw(e, **env)),
    ]


def _shifted(env):
    """another environment: every number moved by one (an evaluation in it must not influence later evaluations)"""
    out = {}
    for k, v in env.items():
        if isinstance(v, (sym.SymBool, bool)):
            out[k] = v
        elif isinstance(v, (sym.Sym, int, float, Fraction)):
            out[k] = v + 1
        else:
            out[k] = v
    return out


def _warm(ev, expr, env):
    """evaluate once in another environment (the result is thrown away), as an earlier user of the process would have"""
    try:
        ev(expr, _shifted(env))
    except Exception:  # noqa: BLE001
        pass


def _uf_calls(env):
    return sum(len(v.calls) for v in env.values() if isinstance(v, sym.UF))


def _reraise(o):
    if o[0] == "exc":
        raise o[1]
    return o[1]


def check_skeleton(desc, fam, tier, twin=None):
    sym.set_family(fam)
    text = skel.show(desc) + f" [{fam}]"
    res = ItemResult(item=text, sample={"skeleton": text})
    expr = skel.build(desc)
    env, pre = H.make_env(desc, fam)
    tg = skel.tags(desc)
    truthy = desc[0] in ("lor2", "land2", "lor3", "land3", "lnot") and any(
        not skel.is_leaf(c) or c[0] == "c" or c[2] != "bool" for c in desc[1:])
    evaluators = _evaluators()
    has_cse = "cse" in tg
    logic_kw = any(t in tg for t in ("logic",))

    def harness():
        for v in env.values():
            if isinstance(v, sym.UF):
                v.calls.clear()
        if twin:
            o = H.outcome(lambda: _twin_oracle(twin, expr, env))
        else:
            o = H.outcome(lambda: refsem.den(expr, env))
        n_o = _uf_calls(env)
        outs = []
        for name, ev in evaluators:
            if has_cse:
                _warm(ev, expr, env)
            before = _uf_calls(env)
            outs.append((name, H.outcome(lambda: ev(expr, env)), _uf_calls(env) - before))
        return o, outs, n_o

    ex = Explorer(pre=pre, max_paths=BOUNDS[tier]["max_paths_per_skeleton"],
                  timeout_ms=BOUNDS[tier]["solver_timeout_ms"])
    q = Query(timeout_ms=BOUNDS[tier]["solver_timeout_ms"])
    cmp_ = H.Cmp(q, fam, truthy=truthy)
    reached = 0
    try:
        for path in ex.run(harness):
            if path.exc is not None:
                if isinstance(path.exc, sym.Unsupported):
                    res.status = "refused"
                    res.note = f"outside proxy model: {path.exc}"
                    res.nontrivial = False
                    return H.finish(res, [ex.stats], q)
                raise HarnessError(f"harness raised {path.exc!r}")
            o, outs, n_o = path.result
            for name, i, ncalls in outs:
                verdict, model, why = cmp_(path.pc, i, o)
                if verdict == "skip":
                    continue
                reached += 1
                res.path_assertions += 1
                if verdict == "ok":
                    # CSE sharing: impl may not call user functions more often than the oracle
                    if has_cse and o[0] == "val" and ncalls > n_o:
                        verdict, model, why = "sat", None, (
                            f"{name} called environment functions {ncalls}x, reference {n_o}x "
                            "(common subexpression evaluated more than once)")
                    else:
                        continue
                if verdict == "unknown":
                    res.status = "inconclusive"
                    res.note = why
                    continue
                # sat: replay on concrete values against the real code
                if model is None:
                    model = H.path_model(pre, path.pc)
                exact = "div" in tg or "pow" in tg or fam == "real"
                cenv = H.concretise_env(env, model, exact=exact)
                if "UNBOUND" in cenv:
                    raise HarnessError("trap variable bound")
                if twin:
                    differs, txt = H.replay_differs(lambda: evaluators[0][1](expr, cenv),
                                                    lambda: _twin_oracle(twin, expr, cenv), truthy)
                elif "more than once" in why:
                    differs, txt = True, why
                else:
                    ev = dict(evaluators)[name]
                    if has_cse:
                        _warm(ev, expr, cenv)
                    differs, txt = H.replay_differs(lambda: ev(expr, cenv),
                                                    lambda: refsem.den(expr, cenv), truthy)
                if not differs:
                    raise HarnessError(
                        f"counterexample did not reproduce: {text} {name} env {H.env_text(cenv)}: {why} / {txt}")
                res.status = "violation"
                res.violations.append(Violation(
                    sig=f"{text} :: {name} :: {'exception' if 'raises' in txt else 'value'}",
                    kind=f"eval-{desc[0]}",
                    detail=f"{name}({expr!r}) with {H.env_text(cenv)}: {txt}",
                    replay={"skeleton": text, "expr_repr": repr(expr), "evaluator": name,
                            "env": H.env_text(cenv), "result": txt}))
            # model-fidelity net: re-run the real code on plain Python values for witnesses of this path
            if not twin and res.status != "violation":
                exact = "div" in tg or "pow" in tg or fam == "real"
                for model in H.witness_models(pre, path.pc, env, tier):
                    cenv = H.concretise_env(env, model, exact=exact)
                    corc = H.outcome(lambda: refsem.den(expr, cenv))
                    for name, ev in evaluators:
                        res.witness_runs = getattr(res, "witness_runs", 0) + 1
                        differs, txt = H.replay_differs(lambda: ev(expr, cenv), lambda: _reraise(corc), truthy)
                        if differs:
                            res.status = "violation"
                            res.violations.append(Violation(
                                sig=f"{text} :: {name} :: {'exception' if 'raises' in txt else 'value'}",
                                kind=f"eval-{desc[0]}",
                                detail=f"(path witness) {name}({expr!r}) with {H.env_text(cenv)}: {txt}",
                                replay={"skeleton": text, "expr_repr": repr(expr), "evaluator": name,
                                        "env": H.env_text(cenv), "result": txt}))
    except sym.Unsupported as e:
        res.status = "refused"
        res.note = str(e)
        res.nontrivial = False
    if not ex.complete and res.status == "ok":
        res.status = "inconclusive"
        res.note = "; ".join(ex.inconclusive_reasons[:2])
    if reached == 0 and res.status == "ok":
        res.nontrivial = False
    return H.finish(res, [ex.stats], q)


# {{{ polynomial / rational nodes (concrete structure, symbolic point)

def check_poly(i, tier):
    import z3
    from pymbolic.mapper.evaluator import EvaluationMapper
    from pymbolic.polynomial import Polynomial
    import pymbolic.primitives as p
    sym.set_family("int")
    x = p.Variable("x")
    polys = [
        Polynomial(x, ((0, 1), (1, 2))), Polynomial(x, ((1, 3), (4, -2))),
        Polynomial(x, ((0, -1), (2, 5), (3, 1))), Polynomial(x, ()),
        Polynomial(x, ((5, 1),)), Polynomial(x, ((0, 7),)),
    ]
    pol = polys[i]
    res = ItemResult(item=f"poly{i} {pol!r}", sample={"polynomial": repr(pol)})
    xv, _ = sym.var("x", "int")
    env = {"x": xv}
    q = Query()
    impl = H.outcome(lambda: EvaluationMapper(env)(pol))
    orc = H.outcome(lambda: refsem.den(pol, env))
    verdict, model, why = H.Cmp(q, "int")([], impl, orc)
    res.paths = 1
    res.path_assertions = 1
    if verdict == "sat":
        if model is None:
            cx = 2
        else:
            cx = sym.model_value(model, xv)
        differs, txt = H.replay_differs(lambda: EvaluationMapper({"x": cx})(pol),
                                        lambda: refsem.den(pol, {"x": cx}))
        if not differs:
            raise HarnessError(f"poly counterexample did not reproduce {pol!r} x={cx}")
        res.status = "violation"
        res.violations.append(Violation(sig=f"poly{i} {pol!r} :: value", kind="eval-polynomial",
                                        detail=f"x={cx}: {txt}", replay={"x": cx, "poly": repr(pol)}))
    elif verdict == "unknown":
        res.status = "inconclusive"
    return H.finish(res, [], q)

# }}}


def check_item(item, tier):
    if item[0] == "skel":
        return check_skeleton(item[1], item[2], tier)
    if item[0] == "twin":
        return check_skeleton(item[1], item[2], tier, twin=item[3])
    if item[0] == "poly":
        return check_poly(item[1], tier)
    raise ValueError(item)
