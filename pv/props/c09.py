"""C09 — dependency, node-count and flop analyses are exact.

The five analysis flags are small-domain symbolic integers: the explorer
enumerates all 72 settings through the solver and proves coverage.  Per setting
the reported set is compared with an independent outermost-composite scan.
Solver clause: with all composite kinds switched off, evaluating the expression
in a symbolic environment that binds ONLY the reported variables raises
UnknownVariableError on no path."""
from __future__ import annotations

import numpy as np
import z3

import pymbolic.primitives as p
from pv import harness as H
from pv import skel
from pv.common import ItemResult, Violation
from pv.engine import explore, sym
from pv.engine.explore import Explorer, HarnessError, Query
from pv.props.c04 import children_of

BOUNDS = {"quick": {"flag_settings": 72, "trees": "every node kind at depth 1; every (parent, slot, child) with child among the "
                    "composite kinds and 5 others; constants in every slot", "max_paths": 256},
          "thorough": {"trees": "all (parent, slot, child) at depth 2 + depth 3 over 8 kinds", "max_paths": 1024}}
ASSUMPTIONS = ["children of a node = expression-valued dataclass fields", "distinct subexpressions = distinct by (type, ==)"]
RULE = "one item per skeleton tree; 72 flag settings enumerated by solver-driven selectors with a coverage query"

ALL_KINDS = (skel.VALUE_KINDS + skel.STRUCT + ["subst", "deriv", "slice2", "slice3", "subslice2", "subslice3",
                                               "subslice_lo", "subslice_tup", "tuple1", "tuple3", "neg"])
COMPOSITE_CHILDREN = ["call1", "call2", "callkw", "callkw0", "sub1", "sub2", "lookup", "cse", "cse_pfx", "sum2", "if",
                      "subslice2", "quot", "pow"]
D3 = ["sum2", "callkw", "sub1", "lookup", "cse", "if", "prod2", "quot"]


def items(tier):
    out, seen = [], set()
    descs = list(skel.depth1(ALL_KINDS)) + list(skel.with_consts(ALL_KINDS))
    if tier == "thorough":
        descs += list(skel.depth2(ALL_KINDS, [k for k in ALL_KINDS if k not in ("list2", "array2")]))
        descs += list(skel.depth3(D3))
    else:
        descs += list(skel.depth2(ALL_KINDS, COMPOSITE_CHILDREN))[::2]     # quick: every second (parent, slot, child)
    v = lambda n, t="num": ("v", n, t)  # noqa: E731
    descs += [
        ("sub1", v("a1", "arr"), ("sub1", v("a1", "arr"), v("x2"))),
        ("call1", ("lookup", v("o1", "rec")), ("sub1", v("a2", "arr"), v("x3"))),
        ("callkw", v("f1", "fn"), v("x2"), ("sum2", ("prod2", v("x3"), v("x4")), ("sub1", v("a5", "arr"), v("x6"))), v("x7")),
        ("sum2", ("cse", ("sum2", v("x1"), v("x2"))), ("cse", ("sum2", v("x1"), v("x2")))),
        ("prod2", ("cse", ("cse", ("quot", v("x1"), v("x2")))), ("cse", ("quot", v("x1"), v("x2")))),
        ("sum2", ("pow", v("x1"), ("c", 2)), ("floordiv", ("prod3", v("x1"), v("x2"), v("x3")), ("rem", v("x2"), ("c", 3)))),
        # different wrappers (prefix / scope) around equal children, and wrappers nested in a wrapper's body
        ("sum2", ("cse", ("sum2", v("x1"), v("x2"))), ("cse_pfx", ("sum2", v("x1"), v("x2")))),
        ("tuple3", ("cse_pfx", ("prod2", v("x1"), v("x2"))), ("cse", ("prod2", v("x1"), v("x2"))), ("cse_glob", ("prod2", v("x1"), v("x2")))),
        ("sum2", ("cse", ("quot", ("pow", ("cse_pfx", ("sum2", v("x1"), v("x2"))), ("c", 2)), ("sum2", ("cse_pfx", ("sum2", v("x1"), v("x2"))), ("c", 1)))), ("c", 1)),
        ("prod2", ("cse", ("sum2", ("cse_pfx", ("prod2", v("x1"), v("x2"))), v("x3"))), ("cse_pfx", ("prod2", v("x1"), v("x2")))),
    ]
    for d in descs:
        k = skel.show(d)
        if k not in seen:
            seen.add(k)
            out.append(("tree", d))
    return out


def twins(tier):
    return [("twin", ("callkw", ("v", "f1", "fn"), ("v", "x2", "num"), ("v", "x3", "num"), ("v", "x4", "num")))]


def spec_deps(e, fl):
    """independent outermost-composite scan"""
    subs, looks, calls, cses = fl
    if isinstance(e, p.Variable):
        return {e}
    if isinstance(e, p.Subscript):
        if subs:
            return {e}
    elif isinstance(e, p.Lookup):
        if looks:
            return {e}
    elif isinstance(e, (p.Call, p.CallWithKwargs)):
        if calls is True:
            return {e}
        if calls == "descend_args":
            out = set()
            for c in e.parameters:
                out |= spec_deps(c, fl)
            if isinstance(e, p.CallWithKwargs):
                for c in e.kw_parameters.values():
                    out |= spec_deps(c, fl)
            return out
    elif isinstance(e, p.CommonSubexpression):
        if cses:
            return {e}
    out = set()
    for c in children_of(e):
        out |= spec_deps(c, fl)
    return out


def distinct_nodes(e):
    seen = []

    def walk(n):
        if not any(type(k) is type(n) and _eq(k, n) for k in seen):
            seen.append(n)
            for c in children_of(n):
                walk(c)
    walk(e)
    return seen


def _eq(a, b):
    try:
        r = a == b
        return bool(r) if not isinstance(r, np.ndarray) else bool(r.all())
    except Exception:  # noqa: BLE001
        return a is b


def spec_flops(e, cse_aware=False, seen=None):
    seen = [] if seen is None else seen
    if isinstance(e, p.CommonSubexpression) and cse_aware:
        if any(_eq(e, s) for s in seen):
            return 0
        seen.append(e)
    own = 0
    if isinstance(e, (p.Sum, p.Product)):
        own = max(len(e.children) - 1, 0)
    elif isinstance(e, (p.Quotient, p.FloorDiv, p.Power)):
        own = 1
    return own + sum(spec_flops(c, cse_aware, seen) for c in children_of(e))


CALLS = [True, False, "descend_args"]
COMP = [None, True, False]


def check_tree(desc, tier, twin=False):
    from pymbolic.mapper.analysis import get_num_nodes
    from pymbolic.mapper.dependency import CachedDependencyMapper, DependencyMapper
    from pymbolic.mapper.evaluator import EvaluationMapper, UnknownVariableError
    from pymbolic.mapper.flop_counter import CSEAwareFlopCounter, FlopCounter
    text = skel.show(desc)
    res = ItemResult(item=text, sample={"skeleton": text})
    expr = skel.build(desc)
    refusals = (NotImplementedError,)
    from pymbolic.mapper import UnsupportedExpressionError

    def viol(kind, detail):
        res.status = "violation"
        res.violations.append(Violation(sig=f"{text} :: {kind}", kind=f"analysis-{kind}", detail=f"{expr!r}: {detail}",
                                        replay={"skeleton": text, "expr": repr(expr)}))

    # ---- dependency analysis for all 72 flag settings (selectors enumerated by the solver)
    sel = {n: z3.Int(n) for n in ["subs", "looks", "calls", "cses", "comp"]}
    pre = [z3.And(sel[n] >= 0, sel[n] < k) for n, k in [("subs", 2), ("looks", 2), ("calls", 3), ("cses", 2), ("comp", 3)]]
    hashable = not isinstance(expr, (list, np.ndarray))

    def harness():
        r = {n: explore.realise(sel[n]) for n in sel}
        kw = {"include_subscripts": bool(r["subs"]), "include_lookups": bool(r["looks"]), "include_calls": CALLS[r["calls"]],
              "include_cses": bool(r["cses"]), "composite_leaves": COMP[r["comp"]]}
        eff = [kw["include_subscripts"], kw["include_lookups"], kw["include_calls"], kw["include_cses"]]
        if kw["composite_leaves"] is not None:
            eff[0] = eff[1] = eff[2] = kw["composite_leaves"]
        exp = spec_deps(expr, tuple(eff))
        if twin:
            exp = exp | {p.Variable("phantom")}
        outs = []
        for cls in (DependencyMapper, CachedDependencyMapper):
            try:
                outs.append((cls.__name__, ("val", cls(**kw)(expr))))
            except (UnsupportedExpressionError, NotImplementedError) as e:
                outs.append((cls.__name__, ("refused", type(e).__name__)))
            except Exception as e:  # noqa: BLE001
                outs.append((cls.__name__, ("exc", repr(e))))
        # call history on ONE instance: whole tree, every distinct subexpression, whole tree again;
        # every answer must be the answer of a fresh analysis (memo tables / CSE caches must not leak)
        if hashable and r["comp"] == 0:      # the 24 settings with composite_leaves left alone
            subs_ = [n for n in distinct_nodes(expr) if isinstance(n, p.Expression)][:8]
            for cls in (DependencyMapper, CachedDependencyMapper):
                try:
                    m = cls(**kw)
                    m(expr)
                    for sub in [*subs_, expr]:
                        got = m(sub)
                        want = spec_deps(sub, tuple(eff))
                        if got != want:
                            outs.append((cls.__name__ + "-history", ("hist", f"after analysing the whole tree, the same instance "
                                         f"reports {got!r} for subexpression {sub!r}; a fresh analysis gives {want!r}")))
                            break
                except (UnsupportedExpressionError, NotImplementedError):
                    pass
                except Exception as e:  # noqa: BLE001
                    outs.append((cls.__name__ + "-history", ("exc", repr(e))))
        return kw, exp, outs

    ex = Explorer(pre=pre, max_paths=80, timeout_ms=10000)
    paths = list(ex.run(harness))
    reported = False
    for path in paths:
        if path.exc is not None:
            raise HarnessError(f"{text}: {path.exc!r}")
        kw, exp, outs = path.result
        for name, o in outs:
            res.path_assertions += 1
            if o[0] == "refused":
                continue
            if o[0] == "exc":
                if not reported:
                    viol(f"{name}-raises", f"{name}({kw}) raised {o[1]}")
                    reported = True
                continue
            if o[0] == "hist":
                if not reported:
                    viol(f"{name}:{_flagsig(kw)}", f"{name}({kw}): {o[1]}")
                    reported = True
                continue
            if o[1] != exp and not reported:
                missing = exp - o[1]
                extra = o[1] - exp
                viol(f"{name}-set:{_flagsig(kw)}", f"{name}({kw}): missing {missing!r}, unexpected {extra!r}")
                reported = True
    if not ex.coverage_unsat(paths):
        res.status = "inconclusive"
        res.note = "flag coverage not unsat"
    stats = [ex.stats]
    if twin:
        return H.finish(res, stats, Query())

    # ---- node count and flop counts
    res.path_assertions += 3
    if hashable:
        try:
            n = get_num_nodes(expr)
            exp_n = len(distinct_nodes(expr))
            if n != exp_n:
                viol("nodecount", f"get_num_nodes = {n}, distinct subexpressions = {exp_n}")
        except (UnsupportedExpressionError, NotImplementedError):
            pass
        except Exception as e:  # noqa: BLE001
            viol("nodecount-raises", f"get_num_nodes raised {e!r}")
    for cls, aware in ((FlopCounter, False), (CSEAwareFlopCounter, True)):
        if not hashable and cls is FlopCounter:
            continue
        try:
            got = cls()(expr)
            exp_f = spec_flops(expr, aware)
            if got != exp_f:
                viol(f"{cls.__name__}", f"{cls.__name__} = {got}, independent count = {exp_f}")
            # a second, fresh counter (and the first one's state must not matter to it)
            got2 = cls()(expr)
            if got2 != exp_f and got == exp_f:
                viol(f"{cls.__name__}-second-instance", f"a second fresh {cls.__name__} in the same process counts {got2}, "
                                                        f"the first counted {got}, independent count = {exp_f}")
        except (UnsupportedExpressionError, NotImplementedError, TypeError):
            pass
        except Exception as e:  # noqa: BLE001
            viol(f"{cls.__name__}-raises", f"{cls.__name__} raised {e!r}")

    # ---- solver clause: the reported variables are exactly what evaluation needs
    tg = skel.tags(desc)
    if any(t in tg for t in ("slice", "subst", "deriv")):
        return H.finish(res, stats, Query())
    fam = H.family_for(desc)
    sym.set_family(fam)
    try:
        dm = DependencyMapper(composite_leaves=False)(expr)
    except (UnsupportedExpressionError, NotImplementedError):
        return H.finish(res, stats, Query())
    names = sorted(v.name for v in dm)
    full_env, pre2 = H.make_env(desc, fam)
    for drop in [None]:     # (only this direction is part of the property; occurrence is the syntactic clause above)
        env = {k: v for k, v in full_env.items() if k in names and k != drop}

        def harness2():
            try:
                EvaluationMapper(env)(expr)
            except UnknownVariableError as e:
                return ("unknown", e.args[0])
            except Exception as e:  # noqa: BLE001
                if isinstance(e, (sym.Unsupported, HarnessError)):
                    raise
                return ("other", type(e).__name__)
            return ("ok", None)
        ex2 = Explorer(pre=pre2, max_paths=BOUNDS[tier]["max_paths"], timeout_ms=10000)
        outs = []
        aborted = False
        for path in ex2.run(harness2):
            if path.exc is not None:
                aborted = True
                break
            outs.append(path.result)
        stats.append(ex2.stats)
        if aborted:
            break
        res.path_assertions += 1
        if drop is None:
            bad = [o for o in outs if o[0] == "unknown"]
            if bad:
                viol("needs-unreported-variable", f"DependencyMapper(composite_leaves=False) reports {names} but evaluation "
                                                  f"in an environment binding exactly those raises UnknownVariableError({bad[0][1]!r})")
        else:
            if ex2.complete and not any(o == ("unknown", drop) for o in outs):
                viol(f"reports-unneeded-variable:{drop}", f"{drop!r} is reported but no evaluation path needs it")
    return H.finish(res, stats, Query())


def _flagsig(kw):
    return ",".join(f"{k.replace('include_', '')}={v}" for k, v in kw.items())


def check_item(item, tier):
    if item[0] == "tree":
        return check_tree(item[1], tier)
    if item[0] == "twin":
        return check_tree(item[1], tier, twin=True)
    raise ValueError(item)
