"""C12 — common-subexpression handling keeps meaning and shares work.

tag_common_subexpressions / CSETagMapper run on lists of expressions with
repeated, commuted and nested repeated subterms; tagged and original expressions
are evaluated by the real evaluator on z3 proxies and z3 proves equality for every
environment.  Sharing clauses are path assertions on instrumented evaluators
(operation and uninterpreted-function call counts), explored on every path of the
symbolic environment (so also where a shared child evaluates to zero)."""
from __future__ import annotations

import itertools

import numpy as np
import z3

import pymbolic.primitives as p
from pv import harness as H
from pv.common import ItemResult, Violation
from pv.engine import sym
from pv.engine.explore import Explorer, HarnessError, Query
from pv.props.c04 import children_of

BOUNDS = {"quick": {"subterm_pool": 16, "lists": "all [ta + tb], [ta*2, tb + 1] pairs and sampled triples", "history": "fresh and "
                    "reused evaluator, <= 3 evaluations", "max_paths": 64},
          "thorough": {"lists": "all pairs + all triples over a 10-element sub-pool", "max_paths": 256}}
ASSUMPTIONS = ["integer environments; user functions are uninterpreted", "the evaluator gives the meaning (C02)"]
RULE = "one item per expression list; non-trivial = tagging returned and >= 1 value query was discharged"


def V(n):
    return p.Variable(n)


def pool():
    x, y, z, f = V("x"), V("y"), V("z"), V("f")
    A = p.Sum((x, y))
    A2 = p.Sum((V("y"), V("x")))
    return [
        A, A2, p.Product((A, z)), p.Product((V("z"), A2)), p.Call(f, (A,)), p.Power(A, 2), p.Quotient(x, y),
        p.Product((x, y, V("x"))), p.Product((V("y"), V("x"), V("x"))), p.Product((x, y, V("y"))),
        p.Sum((x, y, V("y"))), p.Sum((V("y"), x, V("x"))),
        p.CommonSubexpression(A), p.CommonSubexpression(A, "pfx"), p.CommonSubexpression(A2, "pfx", p.cse_scope.EXPRESSION),
        p.Sum((p.Call(f, (x,)), p.Call(f, (V("x"),)))),
    ]


def lists(tier):
    P = pool()
    out = []
    n = len(P)
    for a, b in itertools.product(range(n), repeat=2):
        out.append(("single", a, b))
        out.append(("pair", a, b))
    rng = range(n) if tier == "thorough" else range(0, n, 3)
    for a, b, c in itertools.product(rng, repeat=3):
        out.append(("triple", a, b, c))
    return out


def build_list(spec):
    P = pool()
    if spec[0] == "single":
        return [p.Sum((P[spec[1]], pool()[spec[2]]))]
    if spec[0] == "pair":
        return [p.Product((P[spec[1]], 2)), p.Sum((pool()[spec[2]], 1))]
    return [p.Sum((P[spec[1]], 1)), p.Product((pool()[spec[2]], pool()[spec[3]])), p.Call(V("f"), (pool()[spec[1]],))]


def items(tier):
    return [("list", s) for s in lists(tier)] + [("evalonce", i) for i in range(8)] + [("wrap",)]


def twins(tier):
    return [("twin", ("pair", 0, 2))]


OPS = (p.Sum, p.Product, p.Quotient, p.FloorDiv, p.Remainder, p.Power, p.Call)


def nkey(e):
    """independent normalised key: sums/products are multisets of their operands"""
    if isinstance(e, p.CommonSubexpression):
        return nkey(e.child)
    if isinstance(e, (p.Sum, p.Product)):
        return (type(e).__name__, tuple(sorted((repr(nkey(c)) for c in e.children))))
    if isinstance(e, p.Expression):
        import dataclasses
        return (type(e).__name__, tuple(repr(nkey(getattr(e, f.name))) if isinstance(getattr(e, f.name), p.Expression)
                                        else repr(tuple(repr(nkey(c)) for c in getattr(e, f.name)))
                                        if isinstance(getattr(e, f.name), tuple) else repr(getattr(e, f.name))
                                        for f in dataclasses.fields(e)))
    return ("const", repr(e))


def okey(e):
    """ordered structural key of an operand: x + y and y + x are different operands, and so are x + y and a wrapper
    around it"""
    if isinstance(e, p.Expression):
        import dataclasses
        parts = []
        for f in dataclasses.fields(e):
            v = getattr(e, f.name)
            parts.append(repr(tuple(okey(c) for c in v)) if isinstance(v, tuple) else repr(okey(v)) if isinstance(v, p.Expression)
                         else repr(v))
        return (type(e).__name__, tuple(parts))
    return ("const", repr(e))


def lit_key(e):
    """the property's literal reading of 'the same operation': same node type and the same operands, where for sums
    and products the operands may come in another order (but each operand itself must be the same expression)"""
    if isinstance(e, p.CommonSubexpression):
        return lit_key(e.child)
    if isinstance(e, (p.Sum, p.Product)):
        return (type(e).__name__, tuple(sorted(repr(okey(c)) for c in e.children)))
    return okey(e)


def op_occurrences(exprs):
    """-> {recursively normalised key: {literal key: tree occurrences in the input}}"""
    cnt = {}

    def walk(e):
        if isinstance(e, OPS):
            g = cnt.setdefault(repr(nkey(e)), {})
            lk = repr(lit_key(e))
            g[lk] = g.get(lk, 0) + 1
        for c in children_of(e):
            walk(c)
    for e in exprs:
        walk(e)
    return cnt


def _counting_evaluator(env, log):
    from pymbolic.mapper.evaluator import EvaluationMapper

    class CountingEvaluator(EvaluationMapper):
        pass
    for name in ["map_sum", "map_product", "map_quotient", "map_floor_div", "map_remainder", "map_power", "map_call"]:
        orig = getattr(EvaluationMapper, name)

        def mk(orig=orig):
            def m(self, expr, *a):
                log.append(repr(nkey(expr)))
                return orig(self, expr, *a)
            return m
        setattr(CountingEvaluator, name, mk())
    return CountingEvaluator(env)


def has_nested_cse(e):
    if isinstance(e, p.CommonSubexpression) and isinstance(e.child, p.CommonSubexpression):
        return True
    return any(has_nested_cse(c) for c in children_of(e))


def check_list(spec, tier, twin=False):
    from pymbolic.cse import tag_common_subexpressions
    from pymbolic.mapper.cse_tagger import CSETagMapper, CSEWalkMapper
    from pymbolic.mapper.evaluator import EvaluationMapper
    sym.set_family("int")
    exprs = build_list(spec)
    text = f"{spec} {[str(e) for e in exprs]}"
    res = ItemResult(item=text[:200], sample={"list": [str(e) for e in exprs]})

    def viol(kind, detail):
        res.status = "violation"
        res.violations.append(Violation(sig=f"{spec} :: {kind}", kind=f"cse-{kind}", detail=f"{[str(e) for e in exprs]}: {detail}",
                                        replay={"list": [repr(e) for e in exprs]}))
    try:
        tagged = tag_common_subexpressions(exprs)
    except Exception as e:  # noqa: BLE001
        viol("tag-raises", f"tag_common_subexpressions raised {e!r}")
        return res
    tagged2 = []
    try:
        for e in exprs:
            wm = CSEWalkMapper()
            wm(e)
            tagged2.append(CSETagMapper(wm)(e))
    except Exception as e:  # noqa: BLE001
        viol("tagger-raises", f"CSETagMapper raised {e!r}")
        tagged2 = None
    res.path_assertions += 1
    for t in tagged:
        if has_nested_cse(t):
            viol("nested-wrapper", f"tagged {t!r} has a wrapper directly around a wrapper")
    occ = op_occurrences(exprs)
    # an operation that occurred more than once (literal reading) may be performed once only; operations that are the same
    # only after re-ordering operands INSIDE their operands are not required to be shared, so each literal variant may
    # be performed once
    repeated = {k: len(g) for k, g in occ.items() if any(c > 1 for c in g.values())}

    env = {n: sym.var(n, "int")[0] for n in ("x", "y", "z")}
    env["f"] = sym.UF("f", "int")
    q = Query()

    def harness():
        o = [H.outcome(lambda e=e: EvaluationMapper(env)(e)) for e in exprs]
        if twin:
            o = [H.outcome(lambda e=e: EvaluationMapper(env)(e) + 1) for e in exprs]
        log = []
        ev = _counting_evaluator(env, log)      # ONE evaluator for the whole tagged list
        i = [H.outcome(lambda t=t: ev(t)) for t in tagged]
        i2 = None
        if tagged2 is not None:
            i2 = [H.outcome(lambda t=t: EvaluationMapper(env)(t)) for t in tagged2]
        return o, i, i2, list(log)

    ex = Explorer(pre=[], max_paths=BOUNDS[tier]["max_paths"], timeout_ms=10000)
    cmp_ = H.Cmp(q, "int")
    for path in ex.run(harness):
        if path.exc is not None:
            raise HarnessError(f"{text}: {path.exc!r}")
        o, i, i2, log = path.result
        for which, outs in (("tag_common_subexpressions", i), ("CSETagMapper", i2)):
            if outs is None:
                continue
            for idx, (a, b) in enumerate(zip(outs, o)):
                if b[0] == "exc":
                    continue
                res.path_assertions += 1
                verdict, model, why = cmp_(path.pc, a, b)
                if verdict in ("ok", "skip"):
                    continue
                if verdict == "unknown":
                    res.status = "inconclusive"
                    continue
                if model is None:
                    model = H.path_model([], path.pc)
                cenv = H.concretise_env(env, model, exact=True)
                t = (tagged if which == "tag_common_subexpressions" else tagged2)[idx]
                differs, txt = H.replay_differs(lambda: EvaluationMapper(cenv)(t),
                                                lambda: EvaluationMapper(cenv)(exprs[idx]) + (1 if twin else 0))
                if not differs:
                    raise HarnessError(f"counterexample did not reproduce {text} {H.env_text(cenv)}: {why}")
                viol(f"value-{which}", f"{which} gives {t} for {exprs[idx]}; with {H.env_text(cenv)}: {txt}")
                return H.finish(res, [ex.stats], q)
        # sharing: every operation that occurred more than once in the input is performed once
        if all(b[0] == "val" for b in o) and all(a[0] == "val" for a in i) and not twin:
            res.path_assertions += 1
            import collections
            done = collections.Counter(log)
            over = [k for k, allowed in repeated.items() if done.get(k, 0) > allowed]
            if over:
                viol("work-not-shared", f"evaluating the tagged list {[str(t) for t in tagged]} with one evaluator performs "
                                        f"{over[0]} {done[over[0]]} times (it occurs in {repeated[over[0]]} literal variant(s))")
                break
    return H.finish(res, [ex.stats], q)


def check_evalonce(i, tier):
    """an evaluator computes the child of each distinct wrapper exactly once (fresh and reused instances)"""
    from pymbolic.mapper.evaluator import CachedEvaluationMapper, EvaluationMapper
    sym.set_family("int")
    x, y, f, g = V("x"), V("y"), V("f"), V("g")
    cs = [p.CommonSubexpression(p.Call(f, (p.Sum((x, y)),))),
          p.CommonSubexpression(p.Call(f, (p.Sum((x, p.Product((-1, y)))),)), "pfx"),
          p.CommonSubexpression(p.Call(f, (x,)), None, p.cse_scope.EXPRESSION)]
    c = cs[i % 3]
    c_eq = p.CommonSubexpression(c.child, c.prefix, c.scope)     # equal, distinct object
    shapes = [p.Sum((c, c, c)), p.Product((c, p.Sum((c_eq, 1)))), p.Call(g, (c, c_eq, c)),
              p.Sum((p.CommonSubexpression(p.Sum((c, 1))), p.CommonSubexpression(p.Sum((c_eq, 1))), c))]
    res = ItemResult(item=f"evalonce {i}", sample={"wrapper": str(c)})
    env = {"x": sym.var("x", "int")[0], "y": sym.var("y", "int")[0], "f": sym.UF("f", "int"), "g": sym.UF("g", "int")}
    mk = [EvaluationMapper, CachedEvaluationMapper][i // 4 % 2] if i < 8 else EvaluationMapper
    stats = []
    for e in shapes:
        for hist_len in (1, 2, 3):
            def harness():
                env["f"].calls.clear()
                ev = mk(env)
                counts = []
                for _ in range(hist_len):
                    before = len(env["f"].calls)
                    ev(e)
                    counts.append(len(env["f"].calls) - before)
                return counts
            ex = Explorer(pre=[], max_paths=32, timeout_ms=10000)
            for path in ex.run(harness):
                res.path_assertions += 1
                if path.exc is not None:
                    raise HarnessError(f"evalonce: {path.exc!r}")
                counts = path.result
                # first evaluation: exactly once; later evaluations on the reused instance: at most once
                if counts[0] != 1 or any(c_ > 1 for c_ in counts[1:]):
                    model = H.path_model([], path.pc)
                    res.status = "violation"
                    res.violations.append(Violation(
                        sig=f"evalonce {mk.__name__} {e} hist={hist_len}", kind="cse-child-evaluated-more-than-once",
                        detail=f"{mk.__name__} evaluating {e} {hist_len}x on one instance called f {counts} times "
                               f"(x={sym.model_value(model, env['x'])}, y={sym.model_value(model, env['y'])}, "
                               f"path {path.pc[:2]})",
                        replay={"expr": repr(e)}))
                    return H.finish(res, stats + [ex.stats], Query())
            stats.append(ex.stats)
    return H.finish(res, stats, Query())


def check_wrap():
    from pymbolic.geometric_algebra import MultiVector, Space
    res = ItemResult(item="wrapping helpers", sample={"family": "wrap_in_cse / make_common_subexpression"})
    x, y = V("x"), V("y")
    s = p.Sum((x, y))
    CSE = p.CommonSubexpression

    def chk(name, got, ok):
        res.path_assertions += 1
        if not ok:
            res.status = "violation"
            res.violations.append(Violation(sig=f"wrap {name}", kind="cse-wrap-helper", detail=f"{name}: got {got!r}",
                                            replay={"case": name}))
    for fn_name, fn in (("wrap_in_cse", p.wrap_in_cse), ("make_common_subexpression", p.make_common_subexpression)):
        if fn_name == "make_common_subexpression":
            for cst in (0, 1, 2.5, True):
                r = fn(cst)
                chk(f"{fn_name}({cst!r})", r, r is cst or (type(r) is type(cst) and r == cst))
        if fn_name == "wrap_in_cse":
            r = fn(x)
            chk(f"{fn_name}(x)", r, r is x)
            sub = p.Subscript(x, 1)
            r = fn(sub)
            chk(f"{fn_name}(x[1])", r, r is sub)
        w = CSE(s)
        r = fn(w)
        chk(f"{fn_name}(CSE)", r, r is w)
        r = fn(s)
        chk(f"{fn_name}(sum)", r, type(r) is CSE and r.child is s)
        r = fn(s, "pre")
        chk(f"{fn_name}(sum, prefix)", r, type(r) is CSE and r.child is s and r.prefix == "pre")
        w2 = CSE(s, "old")
        r = fn(w2, "new")
        chk(f"{fn_name}(CSE with prefix, new prefix)", r, r is w2 or (type(r) is CSE and r.prefix == "old" and r.child is s))
        # already wrapped nodes of every scope stay as they are, whatever scope (or none) is asked for
        for wscope in (p.cse_scope.EVALUATION, p.cse_scope.EXPRESSION, p.cse_scope.GLOBAL):
            ws = CSE(s, None, wscope)
            r = fn(ws)
            chk(f"{fn_name}(CSE scope={wscope})", r, r is ws or (type(r) is CSE and not isinstance(r.child, CSE)))
            if fn_name == "make_common_subexpression":
                for ask in (None, p.cse_scope.EVALUATION, wscope):
                    r = fn(ws, None, ask)
                    chk(f"{fn_name}(CSE scope={wscope}, scope={ask})", r, type(r) is CSE and not isinstance(r.child, CSE))
                a2 = np.empty(2, dtype=object)
                a2[0], a2[1] = ws, s
                r = fn(a2)
                chk(f"{fn_name}(array with CSE scope={wscope})", r,
                    isinstance(r, np.ndarray) and all(type(c) is CSE and not isinstance(c.child, CSE) for c in r))
    # componentwise on object arrays
    arr = np.empty(3, dtype=object)
    arr[0], arr[1], arr[2] = s, 5, CSE(s)
    r = p.make_common_subexpression(arr, "a")
    chk("make_common_subexpression(array)", r,
        isinstance(r, np.ndarray) and r.shape == (3,) and type(r[0]) is CSE and r[0].child is s and r[1] == 5
        and not isinstance(r[1], p.Expression) and r[2] is arr[2] and not any(
            isinstance(c, CSE) and isinstance(c.child, CSE) for c in r))
    arr2 = np.empty((2, 2), dtype=object)
    for i in np.ndindex(2, 2):
        arr2[i] = p.Sum((x, i[0] + 2 * i[1] + 1))
    r = p.make_common_subexpression(arr2)
    chk("make_common_subexpression(2d array)", r, isinstance(r, np.ndarray) and r.shape == (2, 2) and all(
        type(r[i]) is CSE and r[i].child is arr2[i] for i in np.ndindex(2, 2)))
    mv = MultiVector({0: s, 1: 3, 3: p.Product((x, y))}, Space(2))
    r = p.make_common_subexpression(mv, "m")
    chk("make_common_subexpression(multivector)", r, isinstance(r, MultiVector) and set(r.data) == {0, 1, 3}
        and type(r.data[0]) is CSE and r.data[0].child is s and r.data[1] == 3 and type(r.data[3]) is CSE)
    res.paths = 1
    return res


def check_item(item, tier):
    if item[0] == "list":
        return check_list(item[1], tier)
    if item[0] == "twin":
        return check_list(item[1], tier, twin=True)
    if item[0] == "evalonce":
        return check_evalonce(item[1], tier)
    if item[0] == "wrap":
        return check_wrap()
    raise ValueError(item)
