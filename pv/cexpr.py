"""A small C-expression front end: parses the expression subset that CCodeMapper
emits (C operator precedence and associativity, ?:, calls, subscripts, member
access) and evaluates it with C semantics on z3 proxies or on plain Python ints.

Integer mode: values are (proxied) integers in a no-overflow range, `/` truncates
toward zero and `%` takes the sign of the dividend, comparisons and logical
operators yield 0/1.  Real mode: `/` is real division (floats as reals)."""
from __future__ import annotations

import re

TOKEN_RE = re.compile(r"""
    (?P<num>(\d+\.\d*|\.\d+|\d+)([eE][+-]?\d+)?[fFlLuU]*)
  | (?P<id>[A-Za-z_][A-Za-z_0-9]*(::[A-Za-z_][A-Za-z_0-9]*)*)
  | (?P<op><<|>>|<=|>=|==|!=|&&|\|\||[-+*/%&|^~!<>?:(),\[\].])
  | (?P<ws>\s+)
""", re.X)


class CSyntaxError(Exception):
    pass


def tokenize(s):
    pos, out = 0, []
    while pos < len(s):
        m = TOKEN_RE.match(s, pos)
        if not m:
            raise CSyntaxError(f"bad character {s[pos]!r} in {s!r}")
        pos = m.end()
        if m.lastgroup == "ws":
            continue
        out.append((m.lastgroup, m.group(m.lastgroup)))
    out.append(("end", ""))
    return out


# binary operator precedence (C): higher binds tighter
BINPREC = {"*": 13, "/": 13, "%": 13, "+": 12, "-": 12, "<<": 11, ">>": 11, "<": 10, "<=": 10, ">": 10, ">=": 10,
           "==": 9, "!=": 9, "&": 8, "^": 7, "|": 6, "&&": 5, "||": 4}


class Parser:
    def __init__(self, s):
        self.toks = tokenize(s)
        self.i = 0
        self.src = s

    def peek(self):
        return self.toks[self.i]

    def next(self):
        t = self.toks[self.i]
        self.i += 1
        return t

    def expect(self, v):
        t = self.next()
        if t[1] != v:
            raise CSyntaxError(f"expected {v!r}, got {t[1]!r} in {self.src!r}")

    def parse(self):
        e = self.ternary()
        if self.peek()[0] != "end":
            raise CSyntaxError(f"trailing input {self.peek()[1]!r} in {self.src!r}")
        return e

    def ternary(self):
        c = self.binary(0)
        if self.peek()[1] == "?":
            self.next()
            a = self.ternary()
            self.expect(":")
            b = self.ternary()
            return ("?:", c, a, b)
        return c

    def binary(self, minprec):
        left = self.unary()
        while True:
            op = self.peek()[1]
            if self.peek()[0] != "op" or op not in BINPREC or BINPREC[op] < minprec:
                return left
            self.next()
            right = self.binary(BINPREC[op] + 1)     # all left-associative
            left = ("bin", op, left, right)

    def unary(self):
        t = self.peek()
        if t[0] == "op" and t[1] in ("-", "+", "~", "!"):
            self.next()
            return ("un", t[1], self.unary())
        return self.postfix()

    def postfix(self):
        e = self.primary()
        while True:
            t = self.peek()
            if t[1] == "(":
                self.next()
                args = []
                if self.peek()[1] != ")":
                    args.append(self.ternary())
                    while self.peek()[1] == ",":
                        self.next()
                        args.append(self.ternary())
                self.expect(")")
                e = ("call", e, args)
            elif t[1] == "[":
                self.next()
                idx = [self.ternary()]
                while self.peek()[1] == ",":
                    self.next()
                    idx.append(self.ternary())
                self.expect("]")
                e = ("index", e, idx)
            elif t[1] == ".":
                self.next()
                name = self.next()
                e = ("member", e, name[1])
            else:
                return e

    def primary(self):
        t = self.next()
        if t[0] == "num":
            txt = t[1].rstrip("fFlLuU")
            if re.fullmatch(r"\d+", txt):
                return ("int", int(txt))
            return ("float", float(txt))
        if t[0] == "id":
            return ("name", t[1])
        if t[1] == "(":
            e = self.ternary()
            self.expect(")")
            return e
        raise CSyntaxError(f"unexpected {t[1]!r} in {self.src!r}")


def parse(s):
    return Parser(s).parse()


def ctype(e):
    """static C type of an expression whose identifiers are all integer-typed: 'int' or 'double'"""
    k = e[0]
    if k == "float":
        return "double"
    if k in ("int", "name", "index", "member"):
        return "int"
    if k == "un":
        return "int" if e[1] in ("!", "~") else ctype(e[2])
    if k == "?:":
        return "double" if "double" in (ctype(e[2]), ctype(e[3])) else "int"
    if k == "call":
        return "double"
    if k == "bin":
        if e[1] in ("+", "-", "*", "/"):
            return "double" if "double" in (ctype(e[2]), ctype(e[3])) else "int"
        return "int"
    raise CSyntaxError(f"cannot type {e}")


class CEval:
    """evaluate a parsed C expression; `ops` supplies the number semantics.
    modes: int (integer division / remainder), real (every division real), mixed (identifiers are ints, float literals
    are doubles: a division is an integer division iff both operands have integer type)"""

    def __init__(self, env, mode="int", truth=None, on_div=None):
        self.env = env
        self.mode = mode
        self.truth = truth or (lambda v: bool(v))
        self.on_div = on_div

    def ev(self, e):
        k = e[0]
        if k == "int":
            return e[1]
        if k == "float":
            return e[1]
        if k == "name":
            if e[1] not in self.env:
                raise NameError(f"C identifier {e[1]!r} used before it is defined")
            return self.env[e[1]]
        if k == "un":
            v = self.ev(e[2])
            if e[1] == "-":
                return -v
            if e[1] == "+":
                return v
            if e[1] == "~":
                return ~v
            return 0 if self.truth(v) else 1
        if k == "?:":
            return self.ev(e[2]) if self.truth(self.ev(e[1])) else self.ev(e[3])
        if k == "call":
            f = self.ev(e[1]) if e[1][0] != "name" or e[1][1] in self.env else self._builtin(e[1][1])
            return f(*[self.ev(a) for a in e[2]])
        if k == "index":
            a = self.ev(e[1])
            idx = [self.ev(i) for i in e[2]]
            return a[idx[0] if len(idx) == 1 else tuple(idx)]
        if k == "member":
            return getattr(self.ev(e[1]), e[2])
        if k == "bin":
            op = e[1]
            if op == "&&":
                return 1 if (self.truth(self.ev(e[2])) and self.truth(self.ev(e[3]))) else 0
            if op == "||":
                return 1 if (self.truth(self.ev(e[2])) or self.truth(self.ev(e[3]))) else 0
            a, b = self.ev(e[2]), self.ev(e[3])
            if self.mode == "mixed" and op == "/" and "double" in (ctype(e[2]), ctype(e[3])):
                return a / b          # C's usual arithmetic conversions: one double operand makes it a double division
            return self.binop(op, a, b)
        raise CSyntaxError(f"cannot evaluate {e}")

    def _builtin(self, name):
        if name == "pow":
            return lambda a, b: a ** b
        if name == "fabs":
            return abs
        raise NameError(f"C function {name!r} is not defined")

    def binop(self, op, a, b):
        if op == "+":
            return a + b
        if op == "-":
            return a - b
        if op == "*":
            return a * b
        if op == "/":
            if self.mode == "real":
                return a / b
            if self.on_div:
                self.on_div(a, b)
            return c_int_div(a, b)
        if op == "%":
            if self.on_div:
                self.on_div(a, b)
            return c_int_rem(a, b)
        if op == "<<":
            return a << b
        if op == ">>":
            return a >> b
        if op == "&":
            return a & b
        if op == "|":
            return a | b
        if op == "^":
            return a ^ b
        r = {"<": lambda: a < b, "<=": lambda: a <= b, ">": lambda: a > b, ">=": lambda: a >= b,
             "==": lambda: a == b, "!=": lambda: a != b}[op]()
        return 1 if self.truth(r) else 0


def c_int_div(a, b):
    """C99 integer division: truncates toward zero"""
    from pv.engine import sym
    import z3
    if isinstance(a, sym.SymBV) or isinstance(b, sym.SymBV):
        a, b = sym.SymBV._lift(a), sym.SymBV._lift(b)
        if sym.branch(b.term == 0):
            raise ZeroDivisionError("C division by zero")
        m = max(abs(a.lo), abs(a.hi))
        return sym.SymBV(a.term / b.term, -m, m)
    if isinstance(a, sym.SymInt) or isinstance(b, sym.SymInt):
        # Int family: the caller has assumed a >= 0 and b > 0 (on_div), where truncation == floor
        return a // b
    if b == 0:
        raise ZeroDivisionError("C division by zero")
    q = abs(a) // abs(b)
    return q if (a >= 0) == (b >= 0) else -q


def c_int_rem(a, b):
    from pv.engine import sym
    import z3
    if isinstance(a, sym.SymBV) or isinstance(b, sym.SymBV):
        a, b = sym.SymBV._lift(a), sym.SymBV._lift(b)
        if sym.branch(b.term == 0):
            raise ZeroDivisionError("C remainder by zero")
        m = max(abs(b.lo), abs(b.hi))
        return sym.SymBV(z3.SRem(a.term, b.term), -m, m)
    if isinstance(a, sym.SymInt) or isinstance(b, sym.SymInt):
        return a % b
    if b == 0:
        raise ZeroDivisionError("C remainder by zero")
    return a - b * c_int_div(a, b)
