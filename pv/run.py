"""CLI: python -m pv.run <ID> [--tier quick|thorough] [--emit-known] [--only=<substr>] [--replay <path>]"""
from __future__ import annotations

import os
import sys

LEVELS = {
    "C01": "model_checking", "C02": "model_checking", "C03": "model_checking", "C04": "model_checking",
    "C05": "model_checking", "C06": "translation_validation", "C07": "translation_validation",
    "C08": "model_checking", "C09": "model_checking", "C10": "model_checking", "C11": "model_checking",
    "C12": "model_checking", "C13": "translation_validation", "C14": "translation_validation",
    "C15": "model_checking", "C16": "model_checking", "C17": "model_checking", "C18": "model_checking",
    "C19": "model_checking", "C20": "model_checking",
}


def main(argv):
    if not argv:
        print(__doc__)
        return 2
    pid = argv[0].upper()
    tier = os.environ.get("VERIF_TIER", "quick")
    rest = []
    it = iter(argv[1:])
    for a in it:
        if a == "--tier":
            tier = next(it)
        elif a.startswith("--tier="):
            tier = a.split("=", 1)[1]
        elif a == "--replay":
            path = next(it)
            import json
            d = json.load(open(path))
            print(json.dumps(d, indent=1))
            rest.append("--only=" + d["sig"].split(" :: ")[0].split(" [")[0])
        else:
            rest.append(a)
    if pid == "SELFTEST":
        from pv.engine.selftest import run_selftest
        print(run_selftest())
        return 0
    from pv.common import run_check
    try:
        return run_check(pid, f"pv.props.{pid.lower()}", tier, LEVELS[pid], rest)
    except Exception:  # noqa: BLE001
        import traceback
        traceback.print_exc()
        return 2


if __name__ == "__main__":
    sys.exit(main(sys.argv[1:]))
