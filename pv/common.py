"""Driver shared by all property checks: parallel execution of items, twins,
known findings, replay files, evidence, exit codes.

Exit codes: 0 = no (unknown) violation on everything explored; 1 = at least one
replayed violation not listed in known_findings.json (a `VIOLATION property=<id>
replay=<path>` line is printed for each); 2 = harness/engine error (never prints
VIOLATION)."""
from __future__ import annotations

import hashlib
import importlib
import json
import multiprocessing as mp
import os
import sys
import time
import traceback
from dataclasses import dataclass, field

VERIF = os.path.dirname(os.path.dirname(os.path.abspath(__file__)))
REPO = os.environ.get("PV_REPO", "/repo")
KNOWN_FILE = os.path.join(VERIF, "known_findings.json")


@dataclass
class Violation:
    sig: str                 # canonical text of the failing input + failure kind
    kind: str                # short class of the failure (for grouping)
    detail: str              # human readable: expected vs observed
    replay: dict = field(default_factory=dict)   # data for the replay file


@dataclass
class ItemResult:
    item: str
    status: str = "ok"       # ok | violation | inconclusive | refused | skipped
    paths: int = 0
    queries: int = 0
    unsat: int = 0
    sat: int = 0
    unknown: int = 0
    solver_s: float = 0.0
    coverage_queries: int = 0
    path_assertions: int = 0
    violations: list = field(default_factory=list)
    note: str = ""
    nontrivial: bool = True
    sample: object = None


def digest(s: str) -> str:
    return hashlib.sha256(s.encode()).hexdigest()[:16]


# {{{ function coverage via sys.monitoring (cheap: each code object reported once)

_SEEN_FUNCS: set = set()


def start_func_trace():
    mon = sys.monitoring
    tool = mon.COVERAGE_ID
    try:
        mon.use_tool_id(tool, "pv")
    except ValueError:
        return

    def on_start(code, offset):
        fn = code.co_filename
        if fn.startswith(REPO + "/pymbolic"):
            _SEEN_FUNCS.add(f"{fn[len(REPO) + 1:-3].replace('/', '.')}:{code.co_qualname}")
        elif fn.startswith("<dataclass augmentation"):
            _SEEN_FUNCS.add(f"pymbolic.primitives(generated):{code.co_qualname}")
        return mon.DISABLE

    mon.register_callback(tool, mon.events.PY_START, on_start)
    mon.set_events(tool, mon.events.PY_START)


def seen_funcs():
    return sorted(_SEEN_FUNCS)

# }}}


def _worker(args):
    modname, chunk, tier, idx = args
    import warnings
    warnings.simplefilter("ignore")
    start_func_trace()
    mod = importlib.import_module(modname)
    from pv.engine import sym
    sym.install()
    out = []
    for item in chunk:
        t0 = time.perf_counter()
        try:
            r = mod.check_item(item, tier)
        except BaseException as e:  # noqa: BLE001
            r = ItemResult(item=str(item), status="error",
                           note="".join(traceback.format_exception(e))[-3000:])
        r.wall = time.perf_counter() - t0
        out.append(r)
    return out, seen_funcs()


def _xsolve_file(path):
    """re-solve one dumped query with cvc5 (python API) and the system z3 binary -> (z3 verdict, cvc5, z3old)"""
    import subprocess
    txt = open(path).read()
    want = txt.split("\n", 1)[0].split(":")[1].strip()
    try:
        import cvc5
        slv = cvc5.Solver()
        slv.setOption("tlimit-per", "5000")
        pr = cvc5.InputParser(slv)
        pr.setStringInput(cvc5.InputLanguage.SMT_LIB_2_6, txt, "q")
        sm = pr.getSymbolManager()
        got = "unknown"
        while True:
            cmd = pr.nextCommand()
            if cmd.isNull():
                break
            out = cmd.invoke(slv, sm).strip()
            if out in ("sat", "unsat", "unknown"):
                got = out
            elif "error" in out:
                got = "error"
                break
    except BaseException as e:  # noqa: BLE001
        got = "error"
    try:
        r = subprocess.run(["/usr/bin/z3", "-in", "-T:5"], input=txt, capture_output=True, text=True, timeout=20)
        lines = [ln.strip() for ln in r.stdout.splitlines() if ln.strip()]
        old = "error" if any(ln.startswith("(error") for ln in lines) else (lines[-1] if lines and lines[-1] in ("sat", "unsat") else "unknown")
    except BaseException:  # noqa: BLE001
        old = "error"
    return want, got, old, os.path.basename(path)


def _selftest_worker(stride):
    from pv.engine.selftest import run_selftest
    try:
        return run_selftest(stride=stride)
    except BaseException as e:  # noqa: BLE001
        return {"error": "".join(traceback.format_exception(e))[-2000:]}


def load_known(pid):
    if not os.path.exists(KNOWN_FILE):
        return {}, []
    data = json.load(open(KNOWN_FILE))
    known = {}
    for f in data.get("findings", []):
        if f["property"] != pid:
            continue
        for s in f["signatures"]:
            known[s] = f
    fixed = [f for f in data.get("fixed", []) if f.get("property") == pid]
    return known, fixed


def run_check(pid: str, modname: str, tier: str, level: str, argv=()):
    t_start = time.time()
    seed = int(os.environ.get("VERIF_SEED", "0") or 0)
    import warnings
    warnings.simplefilter("ignore")
    mod = importlib.import_module(modname)
    emit_known = "--emit-known" in argv
    only = None
    for a in argv:
        if a.startswith("--only="):
            only = a[len("--only="):]
    nproc = int(os.environ.get("PV_JOBS", "0") or 0) or min(16, os.cpu_count() or 1)

    items = list(mod.items(tier))
    if only:
        items = [i for i in items if only in str(i)]
    twins = list(getattr(mod, "twins", lambda tier: [])(tier))
    # deterministic permutation by seed (order only; the explored set is fixed)
    if seed:
        import random
        random.Random(seed).shuffle(items)
    nchunks = max(1, min(len(items), nproc * 6))
    chunks = [items[i::nchunks] for i in range(nchunks)]
    jobs = [(modname, c, tier, i) for i, c in enumerate(chunks) if c]
    twin_jobs = [(modname, [t], tier, -1) for t in twins]

    # E3: sample deciding queries for a second and third solver (on by default; PV_XSOLVE=0 disables)
    xdir = None
    if os.environ.get("PV_XSOLVE", "1") != "0":
        import tempfile
        from pv.engine import explore as _ex
        xdir = tempfile.mkdtemp(prefix="pv_xsolve_")
        _ex.XSOLVE["dir"] = xdir
        _ex.XSOLVE["every"], _ex.XSOLVE["cap"] = (25, 6) if tier == "quick" else (10, 40)

    ctx = mp.get_context("fork")
    results: list[ItemResult] = []
    twin_results: list[ItemResult] = []
    funcs: set = set()
    with ctx.Pool(nproc) as pool:
        st_async = pool.apply_async(_selftest_worker, (3 if tier == "quick" else 1,))
        tw_async = pool.map_async(_worker, twin_jobs) if twin_jobs else None
        # watchdog: a worker that dies or dead-locks must not hang the check
        stall = int(os.environ.get("PV_STALL_TIMEOUT", "1500"))
        it = pool.imap_unordered(_worker, jobs)
        stalled = None
        for _ in range(len(jobs)):
            try:
                out, fs = it.next(timeout=stall)
            except mp.TimeoutError:
                stalled = f"no worker result for {stall} s ({len(results)} of {len(items)} items done)"
                break
            results.extend(out)
            funcs.update(fs)
        if stalled:
            pool.terminate()
            print("HARNESS-ERROR:", stalled, file=sys.stderr)
            return 2
        if tw_async is not None:
            for out, fs in tw_async.get(timeout=stall):
                twin_results.extend(out)
        selftest = st_async.get(timeout=stall)
        xs = {"sampled": 0}
        if xdir is not None:
            files = sorted(os.path.join(xdir, f) for f in os.listdir(xdir))
            if len(files) > (150 if tier == "quick" else 1500):
                files = files[::max(1, len(files) // (150 if tier == "quick" else 1500))]
            xres = pool.map(_xsolve_file, files, chunksize=4) if files else []
            xs = {"sampled": len(xres), "cvc5_agree": 0, "cvc5_inconclusive": 0, "z3_4_8_agree": 0,
                  "z3_4_8_inconclusive": 0, "disagreements": []}
            for want, got, old, name in xres:
                for key, v in (("cvc5", got), ("z3_4_8", old)):
                    if v == want:
                        xs[key + "_agree"] += 1
                    elif v in ("sat", "unsat"):
                        xs["disagreements"].append(f"{name}: z3 {want} but {key} {v}")
                    else:
                        xs[key + "_inconclusive"] += 1
    if xdir is not None:
        import shutil
        if xs.get("disagreements"):
            keep = os.path.join(VERIF, "replays", pid + "_xsolve")
            shutil.rmtree(keep, ignore_errors=True)
            shutil.copytree(xdir, keep)
        shutil.rmtree(xdir, ignore_errors=True)

    errors = [r for r in results + twin_results if r.status == "error"]
    harness_errors = []
    if "error" in selftest:
        harness_errors.append("translator self-test: " + selftest["error"])
    for r in errors:
        harness_errors.append(f"item {r.item}: {r.note}")
    for dis in xs.get("disagreements", [])[:5]:
        harness_errors.append("solvers disagree on a sampled query (kept under replays/%s_xsolve): %s" % (pid, dis))
    # twins must be detected
    twins_ok = 0
    for r in twin_results:
        if r.status == "violation":
            twins_ok += 1
        elif r.status != "error":
            harness_errors.append(f"reachability twin passed (vacuity!): {r.item} status={r.status} {r.note}")

    known, fixed = load_known(pid)
    new_viol, known_hit = [], {}
    for r in results:
        for v in r.violations:
            if v.sig in known:
                known_hit.setdefault(known[v.sig]["class"], []).append(v)
            else:
                new_viol.append(v)

    if emit_known:
        by_kind: dict = {}
        for v in new_viol:
            by_kind.setdefault(v.kind, []).append(v)
        print(json.dumps([{"property": pid, "class": k, "what": vs[0].detail[:300],
                           "signatures": sorted({v.sig for v in vs})}
                          for k, vs in sorted(by_kind.items())], indent=1))

    # replay files (stale ones from earlier runs are removed)
    replay_dir = os.path.join(VERIF, "replays", pid)
    if os.path.isdir(replay_dir) and not only:
        for fn in os.listdir(replay_dir):
            if fn.endswith(".json"):
                os.unlink(os.path.join(replay_dir, fn))
    lines = []
    seen_sigs = set()
    for v in new_viol:
        if v.sig in seen_sigs:
            continue
        seen_sigs.add(v.sig)
        os.makedirs(replay_dir, exist_ok=True)
        path = os.path.join(replay_dir, digest(v.sig) + ".json")
        with open(path, "w") as f:
            json.dump({"property": pid, "sig": v.sig, "kind": v.kind, "detail": v.detail,
                       "replay": v.replay}, f, indent=1, default=str)
        lines.append(f"VIOLATION property={pid} replay={path}")

    tot = lambda k: sum(getattr(r, k) for r in results)  # noqa: E731
    inconclusive = [r for r in results if r.status == "inconclusive"]
    refused = [r for r in results if r.status == "refused"]
    nontrivial = len({r.item for r in results if r.nontrivial and r.status in ("ok", "violation")})
    samples = [r.sample for r in results if r.sample is not None][:6]
    if not samples:
        samples = [r.item for r in results[:6]]
    wall = time.time() - t_start
    cov = {
        "evaluations": len(results),
        "distinct_nontrivial": nontrivial,
        "rule": getattr(mod, "RULE", "one item per skeleton; non-trivial = reached the final assertion on >= 1 path"),
        "samples": samples,
        "programs": len(results),
        "states": max(1, tot("paths")),
        "transitions": max(1, tot("queries")),
        "traces_validated_against_impl": tot("paths"),
        "disagreements_checked": sum(len(r.violations) for r in results),
        "exhaustive": bool(getattr(mod, "EXHAUSTIVE_WITHIN_BOUNDS", True)) and not inconclusive,
        "paths_explored": tot("paths"),
        "solver_queries": {"total": tot("queries"), "unsat": tot("unsat"), "sat": tot("sat"),
                           "unknown": tot("unknown")},
        "solver_seconds": round(tot("solver_s"), 3),
        "coverage_queries": tot("coverage_queries"),
        "path_assertions": tot("path_assertions"),
        "inconclusive_items": len(inconclusive),
        "inconclusive_samples": [f"{r.item}: {r.note}"[:200] for r in inconclusive[:10]],
        "refused_items": len(refused),
        "twins": {"run": len(twin_results), "detected": twins_ok},
        "translator_selftest": selftest if "error" not in selftest else {"error": True},
        "cross_solver": {k: v for k, v in xs.items() if k != "disagreements"},
        "functions_encoded": sorted(funcs),
        "bounds": getattr(mod, "BOUNDS", {}).get(tier, getattr(mod, "BOUNDS", {})),
        "known_findings_hit": {k: len(v) for k, v in known_hit.items()},
        "new_violations": len(seen_sigs),
        "harness_errors": len(harness_errors),
        "slowest_items": [f"{r.item[:80]}: {r.wall:.1f}s" for r in sorted(results, key=lambda r: -r.wall)[:3]],
    }
    ev = {
        "property_id": pid, "tier": tier, "seed": seed, "level": level, "coverage": cov,
        "assumptions": list(getattr(mod, "ASSUMPTIONS", [])),
        "wall_s": round(wall, 2), "violations": len(seen_sigs),
    }
    os.makedirs(os.path.join(VERIF, "evidence"), exist_ok=True)
    with open(os.path.join(VERIF, "evidence", f"{pid}.json"), "w") as f:
        json.dump(ev, f, indent=1, default=str)

    print(f"[{pid}] tier={tier} items={len(results)} paths={tot('paths')} queries={tot('queries')} "
          f"(unsat={tot('unsat')} sat={tot('sat')} unknown={tot('unknown')}) solver={tot('solver_s'):.1f}s "
          f"twins={twins_ok}/{len(twin_results)} xsolve={xs.get('sampled', 0)}"
          f"(cvc5 {xs.get('cvc5_agree', 0)}, z3-4.8 {xs.get('z3_4_8_agree', 0)}) wall={wall:.1f}s")
    if inconclusive:
        print(f"INCONCLUSIVE {len(inconclusive)}")
        for r in inconclusive[:5]:
            print(f"  inconclusive: {r.item[:120]}: {r.note[:160]}")
    for cls, vs in sorted(known_hit.items()):
        f = known[vs[0].sig]
        print(f"KNOWN-FINDING: property={pid} {cls}: {f['what']} ({len({v.sig for v in vs})} inputs)")
    if harness_errors:
        for e in harness_errors[:10]:
            print("HARNESS-ERROR:", e, file=sys.stderr)
        if not lines:
            return 2
        # replayed violations are real whatever else went wrong: report them (exit 1), the harness errors stay on stderr
    for ln in lines[:50]:
        print(ln)
    if len(lines) > 50:
        print(f"... and {len(lines) - 50} more violations (see {replay_dir})")
    if lines:
        for v in new_viol[:8]:
            print(f"  {v.kind}: {v.sig[:150]} :: {v.detail[:200]}")
        return 1
    return 0
