#!/bin/sh
# Offline setup: overlay venv on top of /venv with z3-solver, cvc5, crosshair-tool from the wheelhouse.
set -e
HERE="$(cd "$(dirname "$0")" && pwd)"
if [ -x "$HERE/.venv/bin/python" ] && "$HERE/.venv/bin/python" -c "import z3, jsonschema" 2>/dev/null; then
  echo "venv ok"; exit 0
fi
rm -rf "$HERE/.venv"
/venv/bin/python -m venv "$HERE/.venv"
SP=$("$HERE/.venv/bin/python" -c "import site;print(site.getsitepackages()[0])")
echo "import site; site.addsitedir('/venv/lib/python3.12/site-packages')" > "$SP/_venv_overlay.pth"
PIP_NO_INDEX=1 "$HERE/.venv/bin/pip" install -q --no-index --find-links /opt/veriftools/wheels z3-solver cvc5 crosshair-tool jsonschema
"$HERE/.venv/bin/python" -c "import z3, pymbolic; print('z3', z3.get_version_string(), 'pymbolic', pymbolic.__file__)"
